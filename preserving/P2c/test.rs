// P2c: flush()/sync_*() write the table file first and always ask for the sync;
// database level sync visits the maps in another order.
// Checks C03 (a copy of the directory taken when the call returned Ok opens to the
// current state), C15 (flush/sync of an unmodified map leave the files unchanged),
// C11 (maps stay isolated), is_dirty() bookkeeping.
use abyssiniandb::filedb::{FileDb, FileDbParams, HashBucketsParam};
use abyssiniandb::{DbMap, DbMapKeyType, DbXxx, DbXxxBase};
use std::collections::BTreeMap;

type Model = BTreeMap<Vec<u8>, Vec<u8>>;

fn copy_dir(from: &str, to: &str) {
    let _ = std::fs::remove_dir_all(to);
    std::fs::create_dir_all(to).unwrap();
    for e in std::fs::read_dir(from).unwrap() {
        let e = e.unwrap();
        std::fs::copy(e.path(), format!("{to}/{}", e.file_name().to_str().unwrap())).unwrap();
    }
}

fn snapshot(dir: &str) -> BTreeMap<String, Vec<u8>> {
    let mut r = BTreeMap::new();
    for e in std::fs::read_dir(dir).unwrap() {
        let e = e.unwrap();
        r.insert(e.file_name().to_str().unwrap().to_string(), std::fs::read(e.path()).unwrap());
    }
    r
}

fn contents<K: DbMapKeyType, T: DbMap<K>>(m: &mut T) -> Model {
    let r: Model = m.iter().map(|(k, v)| (k.as_bytes().to_vec(), v)).collect();
    assert_eq!(m.len().unwrap(), r.len() as u64);
    r
}

fn params() -> FileDbParams {
    FileDbParams {
        buckets_size: HashBucketsParam::BucketsSize(32),
        ..Default::default()
    }
}

/// opens a copy of the directory and compares the string map `name` with the model.
fn check_copy_string(dir: &str, tag: &str, name: &str, model: &Model) {
    let copy = format!("{dir}.copy-{tag}");
    copy_dir(dir, &copy);
    let db = abyssiniandb::open_file(&copy).unwrap();
    let mut m = db.db_map_string(name).unwrap();
    assert_eq!(&contents(&mut m), model, "copy after {tag}");
    for (k, v) in model {
        let k = String::from_utf8(k.clone()).unwrap();
        assert_eq!(m.get(&k).unwrap().as_ref(), Some(v));
    }
}

#[test]
fn seed_p2c_map_level() {
    let dir = "target/tmp/seed_p2c/map.abyssiniandb";
    let _ = std::fs::remove_dir_all(dir);
    let mut model = Model::new();
    {
        let db = abyssiniandb::open_file(dir).unwrap();
        let mut m = db.db_map_string_with_params("m", params()).unwrap();
        // created, never updated: a flushed copy is a valid empty map
        m.flush().unwrap();
        assert!(!m.is_dirty());
        check_copy_string(dir, "empty", "m", &model);
        type Step = fn(&mut abyssiniandb::filedb::FileDbMapDbString) -> std::io::Result<()>;
        let steps: [(&str, Step); 3] = [
            ("flush", |m| m.flush()),
            ("sync_data", |m| m.sync_data()),
            ("sync_all", |m| m.sync_all()),
        ];
        for round in 0..6u32 {
            for i in 0..40u32 {
                let k = format!("r{}-{i}", round % 3);
                let v = vec![round as u8; (i * (round + 1) * 13 % 700) as usize];
                m.put(&k, &v).unwrap();
                model.insert(k.into_bytes(), v);
            }
            for i in (0..40u32).step_by(3) {
                let k = format!("r{}-{i}", (round + 1) % 3);
                assert_eq!(m.delete(&k).unwrap(), model.remove(k.as_bytes()));
            }
            assert!(m.is_dirty());
            let (tag, step) = steps[round as usize % 3];
            step(&mut m).unwrap();
            assert!(!m.is_dirty());
            check_copy_string(dir, &format!("{tag}{round}"), "m", &model);
            // everything again on the now clean map: nothing changes on disk
            let before = snapshot(dir);
            for (_, step) in steps.iter() {
                step(&mut m).unwrap();
                assert!(!m.is_dirty());
            }
            db.sync_all().unwrap();
            db.sync_data().unwrap();
            assert_eq!(before, snapshot(dir));
            assert_eq!(contents(&mut m), model);
        }
    }
    // clean close; then flush/sync on a freshly reopened, unmodified map
    let before = snapshot(dir);
    {
        let db = abyssiniandb::open_file(dir).unwrap();
        let mut m = db.db_map_string("m").unwrap();
        assert!(!m.is_dirty());
        m.sync_all().unwrap();
        m.sync_data().unwrap();
        m.flush().unwrap();
        db.sync_all().unwrap();
        assert_eq!(contents(&mut m), model);
        m.sync_data().unwrap();
    }
    assert_eq!(before, snapshot(dir));
}

fn fill_db(db: &FileDb, round: u8, models: &mut BTreeMap<String, Model>) {
    for name in ["zz", "aa", "mm"] {
        let mut m = db.db_map_string_with_params(name, params()).unwrap();
        let model = models.entry(format!("s-{name}")).or_default();
        for i in 0..20u8 {
            let k = format!("{name}{i}");
            let v = vec![round; i as usize * 9];
            m.put(&k, &v).unwrap();
            model.insert(k.into_bytes(), v);
        }
    }
    for name in ["b2", "b1"] {
        let mut m = db.db_map_bytes_with_params(name, params()).unwrap();
        let model = models.entry(format!("b-{name}")).or_default();
        for i in 0..20u8 {
            let k = vec![i, round, 0xff];
            m.put(k.as_slice(), name.as_bytes()).unwrap();
            model.insert(k, name.as_bytes().to_vec());
        }
    }
    let mut m = db.db_map_u64_with_params("u", params()).unwrap();
    let model = models.entry("u-u".into()).or_default();
    for i in 0..20u64 {
        let k = i * 1_000_000_007 + round as u64;
        m.put(&k, &k.to_le_bytes()).unwrap();
        let kt = abyssiniandb::DbU64::from(k);
        model.insert(kt.as_bytes().to_vec(), k.to_le_bytes().to_vec());
    }
    // "i" (i64) and "v" (vu64) are created and never updated.
    let _ = db.db_map_i64_with_params("i", params()).unwrap();
    let _ = db.db_map_vu64_with_params("v", params()).unwrap();
}

fn check_db(dir: &str, models: &BTreeMap<String, Model>) {
    let db = abyssiniandb::open_file(dir).unwrap();
    for (name, model) in models {
        let (ty, name) = name.split_at(2);
        let got = match ty {
            "s-" => contents(&mut db.db_map_string(name).unwrap()),
            "b-" => contents(&mut db.db_map_bytes(name).unwrap()),
            "u-" => contents(&mut db.db_map_u64(name).unwrap()),
            _ => unreachable!(),
        };
        assert_eq!(&got, model, "map {name}");
    }
    assert!(db.db_map_i64("i").unwrap().is_empty().unwrap());
    assert!(db.db_map_vu64("v").unwrap().is_empty().unwrap());
    assert_eq!(db.db_map_i64("i").unwrap().iter().count(), 0);
}

#[test]
fn seed_p2c_db_level() {
    let dir = "target/tmp/seed_p2c/db.abyssiniandb";
    let _ = std::fs::remove_dir_all(dir);
    let mut models = BTreeMap::new();
    {
        let db = abyssiniandb::open_file(dir).unwrap();
        for round in 0..4u8 {
            fill_db(&db, round, &mut models);
            let db2 = db.clone();
            if round % 2 == 0 {
                db2.sync_all().unwrap();
            } else {
                db.sync_data().unwrap();
            }
            assert!(!db.db_map_string("aa").unwrap().is_dirty());
            assert!(!db.db_map_i64("i").unwrap().is_dirty());
            let copy = format!("{dir}.copy{round}");
            copy_dir(dir, &copy);
            check_db(&copy, &models);
            // a second sync changes nothing
            let before = snapshot(dir);
            db.sync_all().unwrap();
            assert_eq!(before, snapshot(dir));
        }
    }
    check_db(dir, &models);
}
