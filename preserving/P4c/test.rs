// P4c: HashBucketsParam::Capacity(c) -> buckets size rule at table creation.
//
// Public API only (plus reading the documented .htx layout with std::fs).
// Passes with and without the change: nothing here depends on WHICH power of
// two is chosen for a capacity, only on the documented invariants.
mod p4c {
    use abyssiniandb::filedb::{CheckFileDbMap, FileDbParams, HashBucketsParam};
    use abyssiniandb::{DbBytes, DbMap, DbXxx, DbXxxBase, HashValue};
    use std::collections::{BTreeMap, BTreeSet};
    use std::path::{Path, PathBuf};

    type Model = BTreeMap<Vec<u8>, Vec<u8>>;

    fn fresh_dir(name: &str) -> PathBuf {
        let p = PathBuf::from(format!("target/tmp/p4c/{name}"));
        let _ = std::fs::remove_dir_all(&p);
        std::fs::create_dir_all(&p).unwrap();
        p
    }
    fn params(b: HashBucketsParam) -> FileDbParams {
        FileDbParams {
            buckets_size: b,
            ..Default::default()
        }
    }
    fn u64_at(buf: &[u8], off: usize) -> u64 {
        let mut a = [0u8; 8];
        a.copy_from_slice(&buf[off..off + 8]);
        u64::from_le_bytes(a)
    }
    // runs a fixed history, returns everything the calls returned and the model.
    fn history(dir: &Path, b: HashBucketsParam, n: u32) -> (Vec<Option<Vec<u8>>>, Model) {
        let db = abyssiniandb::open_file(dir).unwrap();
        let mut map = db.db_map_bytes_with_params("m", params(b)).unwrap();
        let mut model = Model::new();
        let mut log = Vec::new();
        for i in 0..n {
            let k = format!("key-{:05}", (i * 31) % (n / 2 + 1)).into_bytes();
            match i % 7 {
                3 => {
                    let r = map.delete(&k[..]).unwrap();
                    assert_eq!(r, model.remove(&k));
                    log.push(r);
                }
                5 => {
                    let r = map.get(&k[..]).unwrap();
                    assert_eq!(r.as_ref(), model.get(&k));
                    log.push(r);
                }
                _ => {
                    let v = vec![(i % 256) as u8; ((i * 13) % 200) as usize];
                    map.put(&k[..], &v).unwrap();
                    model.insert(k, v);
                }
            }
            assert_eq!(map.len().unwrap(), model.len() as u64);
        }
        let got: Model = map.iter().map(|(k, v)| (k.to_vec(), v)).collect();
        assert_eq!(got, model);
        // the bucket filling figure equals the number of distinct buckets in use.
        let (filled, _rate) = map.htx_filling_rate_per_mill().unwrap();
        log.push(Some(filled.to_le_bytes().to_vec()));
        (log, model)
    }
    // independent reader of the documented .htx layout.
    fn check_htx(dir: &Path, model: &Model, min_buckets: u64) -> u64 {
        let htx = std::fs::read(dir.join("m.htx")).unwrap();
        assert_eq!(&htx[0..8], b"abysdbH\0");
        assert_eq!(&htx[8..16], b"bytes\0\0\0");
        let b = u64_at(&htx, 16);
        assert!(b.is_power_of_two(), "buckets size {b}");
        assert!(b >= 8 && b >= min_buckets, "buckets size {b} < {min_buckets}");
        assert_eq!(u64_at(&htx, 24), model.len() as u64);
        assert_eq!(htx.len() as u64, 128 + 8 * b + b / 8);
        // placement depends on the key bytes and the table size only.
        let used: BTreeSet<u64> = model
            .keys()
            .map(|k| DbBytes::from(&k[..]).hash_value() % b)
            .collect();
        for idx in 0..b {
            let head = u64_at(&htx, (128 + 8 * idx) as usize);
            let bit = htx[(128 + 8 * b + idx / 8) as usize] >> (idx % 8) & 1;
            assert_eq!(head != 0, used.contains(&idx), "bucket {idx}");
            assert_eq!(bit == 1, used.contains(&idx), "bitmap {idx}");
        }
        b
    }

    #[test]
    fn capacity_tables_follow_the_layout_and_behave_the_same() {
        // reference run: one single bucket.
        let ref_dir = fresh_dir("ref");
        let (ref_log, ref_model) = history(&ref_dir, HashBucketsParam::BucketsSize(1), 600);
        //
        for cap in [1u64, 3, 4, 5, 7, 8, 9, 10, 100, 1000, 10000] {
            let dir = fresh_dir(&format!("cap{cap}"));
            let (log, model) = history(&dir, HashBucketsParam::Capacity(cap), 600);
            // same call results whatever the table size (the filling figure, the last
            // entry of the log, legitimately depends on the table size).
            assert_eq!(log[..log.len() - 1], ref_log[..ref_log.len() - 1]);
            assert_eq!(model, ref_model);
            // a table created for `cap` items has at least `cap` buckets.
            let b = check_htx(&dir, &model, cap);
            let filled = u64_at(log.last().unwrap().as_ref().unwrap(), 0);
            let used: BTreeSet<u64> = model
                .keys()
                .map(|k| DbBytes::from(&k[..]).hash_value() % b)
                .collect();
            assert_eq!(filled, used.len() as u64);
            //
            // reopen with other parameters: the stored size wins, contents are kept,
            // read-only use leaves the files byte-identical.
            let before: Vec<Vec<u8>> = ["m.htx", "m.key", "m.val"]
                .iter()
                .map(|f| std::fs::read(dir.join(f)).unwrap())
                .collect();
            for other in [
                HashBucketsParam::Capacity(cap * 64 + 1),
                HashBucketsParam::Capacity(1),
                HashBucketsParam::BucketsSize(2),
                HashBucketsParam::Default,
            ] {
                let db = abyssiniandb::open_file(&dir).unwrap();
                let mut map = db.db_map_bytes_with_params("m", params(other)).unwrap();
                assert_eq!(map.len().unwrap(), model.len() as u64);
                for (k, v) in &model {
                    assert_eq!(map.get(&k[..]).unwrap().as_ref(), Some(v));
                }
                let got: Model = map.iter().map(|(k, v)| (k.to_vec(), v)).collect();
                assert_eq!(got, model);
            }
            let after: Vec<Vec<u8>> = ["m.htx", "m.key", "m.val"]
                .iter()
                .map(|f| std::fs::read(dir.join(f)).unwrap())
                .collect();
            assert_eq!(before, after);
            assert_eq!(check_htx(&dir, &model, cap), b);
        }
    }

    // same history, same parameters, two directories: byte-identical files.
    #[test]
    fn capacity_tables_are_deterministic() {
        for cap in [5u64, 10, 777] {
            let d1 = fresh_dir(&format!("det{cap}_1"));
            let d2 = fresh_dir(&format!("det{cap}_2"));
            history(&d1, HashBucketsParam::Capacity(cap), 300);
            history(&d2, HashBucketsParam::Capacity(cap), 300);
            for f in ["m.htx", "m.key", "m.val"] {
                assert_eq!(
                    std::fs::read(d1.join(f)).unwrap(),
                    std::fs::read(d2.join(f)).unwrap()
                );
            }
        }
    }

    #[test]
    #[should_panic]
    fn capacity_zero_is_refused() {
        let dir = fresh_dir("cap0");
        let db = abyssiniandb::open_file(&dir).unwrap();
        let _ = db.db_map_bytes_with_params("m", params(HashBucketsParam::Capacity(0)));
    }
}
