// P3a: overwrite path - a record that no longer fits its slot is written to its
// new slot first and the old slot is released afterwards.
//
// Exercises growing / shrinking overwrites across slot-size classes for keys at
// every chain position, checks the map against a model, checks that the outgrown
// slots are on the free lists and get reused (the value file does not grow when a
// suitable free slot exists), checks reopen, and checks that two runs of the same
// history give byte-identical files.
mod seed_p3a {
    use abyssiniandb::filedb::{CheckFileDbMap, FileDbParams, HashBucketsParam};
    use abyssiniandb::{DbMap, DbMapKeyType, DbXxx, DbXxxBase};
    use std::collections::BTreeMap;

    fn val(seed: u64, len: usize) -> Vec<u8> {
        let mut x = seed.wrapping_mul(0x9E37_79B9_7F4A_7C15) | 1;
        (0..len)
            .map(|_| {
                x ^= x << 13;
                x ^= x >> 7;
                x ^= x << 17;
                (x >> 24) as u8
            })
            .collect()
    }

    fn free_total(v: &[(u32, u64)]) -> u64 {
        v.iter().map(|a| a.1).sum()
    }

    fn read_files(dir: &str, name: &str) -> Vec<Vec<u8>> {
        ["htx", "key", "val"]
            .iter()
            .map(|ext| std::fs::read(format!("{dir}/{name}.{ext}")).unwrap())
            .collect()
    }

    fn run(dir: &str) -> (BTreeMap<String, Vec<u8>>, Vec<Vec<u8>>) {
        let _ = std::fs::remove_dir_all(dir);
        let mut model: BTreeMap<String, Vec<u8>> = BTreeMap::new();
        {
            let db = abyssiniandb::open_file(dir).unwrap();
            let mut m = db
                .db_map_string_with_params(
                    "m",
                    FileDbParams {
                        // two buckets: long chains, keys at first/middle/last positions.
                        buckets_size: HashBucketsParam::BucketsSize(2),
                        ..Default::default()
                    },
                )
                .unwrap();
            // "edge-key-N" (10 bytes): the key record is at the limit of its 16 byte
            // slot, it outgrows the slot when its value moves to an offset >= 16 KiB.
            let keys: Vec<String> = (0..12)
                .map(|i| format!("key{i:02}"))
                .chain((0..4).map(|i| format!("edge-key-{i}")))
                .collect();
            for (i, k) in keys.iter().enumerate() {
                let v = val(i as u64, 3);
                m.put(k.as_str(), &v).unwrap();
                model.insert(k.clone(), v);
            }
            assert_eq!(free_total(&m.count_of_free_value_piece().unwrap()), 0);
            assert_eq!(free_total(&m.count_of_free_key_piece().unwrap()), 0);
            // grow every value step by step over the slot-size classes, then into the
            // large (shared free list) range, then shrink again.
            let lens = [
                7usize, 14, 15, 22, 30, 46, 62, 100, 126, 250, 500, 1000, 1021, 1022, 2000, 5000,
                40, 0, 9000, 1,
            ];
            for (round, &len) in lens.iter().enumerate() {
                for (i, k) in keys.iter().enumerate() {
                    // not all keys in every round: leaves free slots of many classes.
                    if (i + round) % 3 == 0 {
                        continue;
                    }
                    let v = val((round * 100 + i) as u64, len + (i % 2));
                    m.put(k.as_str(), &v).unwrap();
                    model.insert(k.clone(), v);
                    assert_eq!(m.get(k.as_str()).unwrap().as_ref(), model.get(k));
                }
                assert_eq!(m.len().unwrap(), model.len() as u64);
                for (k, v) in model.iter() {
                    assert_eq!(m.get(k.as_str()).unwrap().as_ref(), Some(v));
                }
            }
            // key records were relocated too and their old slots are free or reused.
            assert!(free_total(&m.count_of_free_key_piece().unwrap()) > 0);
            // a value that outgrows its slot leaves exactly one more free value slot
            // when no free slot was taken, or the same number when one was reused.
            m.put("solo", &val(1, 3)).unwrap();
            model.insert("solo".into(), val(1, 3));
            let before = free_total(&m.count_of_free_value_piece().unwrap());
            m.put("solo", &val(2, 70_000)).unwrap();
            model.insert("solo".into(), val(2, 70_000));
            let after = free_total(&m.count_of_free_value_piece().unwrap());
            assert_eq!(after, before + 1, "outgrown slot must be on a free list");
            // the slot released above is reused by the next value of that class:
            // the value file is not extended.
            m.flush().unwrap();
            let len0 = std::fs::metadata(format!("{dir}/m.val")).unwrap().len();
            m.put("solo2", &val(3, 3)).unwrap();
            model.insert("solo2".into(), val(3, 3));
            m.flush().unwrap();
            let len1 = std::fs::metadata(format!("{dir}/m.val")).unwrap().len();
            assert_eq!(len0, len1, "a suitable free slot exists: no extension");
            assert_eq!(free_total(&m.count_of_free_value_piece().unwrap()), after - 1);
            // the slot-walking statistics calls terminate.
            let _ = m.value_length_stats().unwrap().to_string();
            let _ = m.value_piece_size_stats().unwrap().to_string();
            let _ = m.key_piece_size_stats().unwrap().to_string();
            // iteration
            let it: BTreeMap<String, Vec<u8>> = m
                .iter()
                .map(|(k, v)| (String::from_utf8(k.as_bytes().to_vec()).unwrap(), v))
                .collect();
            assert!(it == model, "iteration differs from the model");
        }
        // reopen
        {
            let db = abyssiniandb::open_file(dir).unwrap();
            let mut m = db.db_map_string("m").unwrap();
            assert_eq!(m.len().unwrap(), model.len() as u64);
            for (k, v) in model.iter() {
                assert_eq!(m.get(k.as_str()).unwrap().as_ref(), Some(v));
            }
        }
        (model, read_files(dir, "m"))
    }

    #[test]
    fn overwrite_relocation_model_reuse_and_determinism() {
        let (m1, f1) = run("target/tmp/seed_p3a/run1.abyssiniandb");
        let (m2, f2) = run("target/tmp/seed_p3a/run2.abyssiniandb");
        assert!(m1 == m2);
        assert!(f1 == f2, "same history must give byte-identical files");
    }
}
