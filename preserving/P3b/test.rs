// P3b: delete path - the stored item count is decremented first, and the key slot
// is released before the value slot.
//
// Deletes keys at every chain position (only / first / middle / last), checks the
// returned value, len(), the model, that every delete adds exactly one slot to a
// key free list and one to a value free list, that those slots are reused (files
// do not grow), reopen, and byte-identical files for two runs of the same history.
mod seed_p3b {
    use abyssiniandb::filedb::{CheckFileDbMap, FileDbParams, HashBucketsParam};
    use abyssiniandb::{DbMap, DbMapKeyType, DbXxx, DbXxxBase};
    use std::collections::BTreeMap;

    fn val(seed: u64, len: usize) -> Vec<u8> {
        let mut x = seed.wrapping_mul(0x9E37_79B9_7F4A_7C15) | 1;
        (0..len)
            .map(|_| {
                x ^= x << 13;
                x ^= x >> 7;
                x ^= x << 17;
                (x >> 24) as u8
            })
            .collect()
    }

    fn free_total(v: &[(u32, u64)]) -> u64 {
        v.iter().map(|a| a.1).sum()
    }

    fn file_len(dir: &str, ext: &str) -> u64 {
        std::fs::metadata(format!("{dir}/m.{ext}")).unwrap().len()
    }

    fn run(dir: &str, buckets: u64) -> (BTreeMap<u64, Vec<u8>>, Vec<Vec<u8>>) {
        let _ = std::fs::remove_dir_all(dir);
        let mut model: BTreeMap<u64, Vec<u8>> = BTreeMap::new();
        {
            let db = abyssiniandb::open_file(dir).unwrap();
            let mut m = db
                .db_map_u64_with_params(
                    "m",
                    FileDbParams {
                        buckets_size: HashBucketsParam::BucketsSize(buckets),
                        ..Default::default()
                    },
                )
                .unwrap();
            // delete from an empty map and a missing key
            assert_eq!(m.delete(&5).unwrap(), None);
            assert_eq!(m.len().unwrap(), 0);
            // only key of its chain
            m.put(&1000, &val(1000, 10)).unwrap();
            assert_eq!(m.delete(&1000).unwrap(), Some(val(1000, 10)));
            assert_eq!(m.len().unwrap(), 0);
            assert!(m.is_empty().unwrap());
            assert_eq!(m.get(&1000).unwrap(), None);
            //
            for i in 0..60u64 {
                let v = val(i, [0usize, 5, 30, 100, 600, 1500, 4000][(i % 7) as usize]);
                m.put(&i, &v).unwrap();
                model.insert(i, v);
            }
            assert_eq!(m.len().unwrap(), 60);
            // delete in an order that hits heads, middles and tails of the chains
            let order: Vec<u64> = (0..60u64).map(|i| (i * 37 + 11) % 60).collect();
            for (n, k) in order.iter().enumerate() {
                if n % 3 == 2 {
                    continue;
                }
                let fk = free_total(&m.count_of_free_key_piece().unwrap());
                let fv = free_total(&m.count_of_free_value_piece().unwrap());
                let len = m.len().unwrap();
                let expected = model.remove(k);
                assert!(expected.is_some());
                assert_eq!(m.delete(k).unwrap(), expected);
                assert_eq!(m.len().unwrap(), len - 1);
                assert_eq!(m.delete(k).unwrap(), None);
                assert_eq!(m.len().unwrap(), len - 1);
                assert!(!m.includes_key(k).unwrap());
                // the chain link of the previous key may have been rewritten into another
                // slot (one popped, one pushed: no net change), so exactly one more each.
                assert_eq!(free_total(&m.count_of_free_key_piece().unwrap()), fk + 1);
                assert_eq!(free_total(&m.count_of_free_value_piece().unwrap()), fv + 1);
                for (k, v) in model.iter() {
                    assert_eq!(m.get(k).unwrap().as_ref(), Some(v));
                }
            }
            assert_eq!(m.len().unwrap(), model.len() as u64);
            // put the same things again: everything fits into released slots.
            m.flush().unwrap();
            let (kl, vl) = (file_len(dir, "key"), file_len(dir, "val"));
            // (largest values first: the large slots share one first-fit list.)
            let mut again: Vec<u64> = order
                .iter()
                .enumerate()
                .filter(|(n, _)| n % 3 != 2)
                .map(|(_, k)| *k)
                .collect();
            again.sort_by_key(|k| std::cmp::Reverse((k % 7, *k)));
            for k in again.iter() {
                let v = val(*k, [0usize, 5, 30, 100, 600, 1500, 4000][(*k % 7) as usize]);
                m.put(k, &v).unwrap();
                model.insert(*k, v);
            }
            m.flush().unwrap();
            assert_eq!(file_len(dir, "val"), vl, "value slots must be reused");
            assert_eq!(file_len(dir, "key"), kl, "key slots must be reused");
            assert_eq!(m.len().unwrap(), 60);
            // delete everything
            for k in 0..30u64 {
                assert_eq!(m.delete(&k).unwrap(), model.remove(&k));
            }
            let (_filled, _) = m.htx_filling_rate_per_mill().unwrap();
            let it: BTreeMap<u64, Vec<u8>> = m
                .iter()
                .map(|(k, v)| {
                    let mut b = [0u8; 8];
                    b.copy_from_slice(k.as_bytes());
                    (u64::from_le_bytes(b), v)
                })
                .collect();
            assert!(it == model, "iteration differs from the model");
            let _ = m.key_length_stats().unwrap().to_string();
            let _ = m.value_piece_size_stats().unwrap().to_string();
        }
        {
            let db = abyssiniandb::open_file(dir).unwrap();
            let mut m = db.db_map_u64("m").unwrap();
            assert_eq!(m.len().unwrap(), model.len() as u64);
            for k in 0..60u64 {
                assert_eq!(m.get(&k).unwrap().as_ref(), model.get(&k));
            }
        }
        let files = ["htx", "key", "val"]
            .iter()
            .map(|ext| std::fs::read(format!("{dir}/m.{ext}")).unwrap())
            .collect();
        (model, files)
    }

    #[test]
    fn delete_positions_counts_reuse_and_determinism() {
        for buckets in [1u64, 4, 64] {
            let (m1, f1) = run(&format!("target/tmp/seed_p3b/b{buckets}-1.abyssiniandb"), buckets);
            let (m2, f2) = run(&format!("target/tmp/seed_p3b/b{buckets}-2.abyssiniandb"), buckets);
            assert!(m1 == m2);
            assert!(f1 == f2, "same history must give byte-identical files");
        }
    }
}
