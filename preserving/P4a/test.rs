// P4a: flush() tries all three files and reports the first error.
//
// Public API only. Passes with and without the change.
mod p4a {
    use abyssiniandb::filedb::{FileBufSizeParam, FileDbParams, HashBucketsParam};
    use abyssiniandb::{DbMap, DbXxx, DbXxxBase};
    use std::path::{Path, PathBuf};

    fn fresh_dir(name: &str) -> PathBuf {
        let p = PathBuf::from(format!("target/tmp/p4a/{name}"));
        let _ = std::fs::remove_dir_all(&p);
        std::fs::create_dir_all(&p).unwrap();
        p
    }
    fn params() -> FileDbParams {
        FileDbParams {
            buckets_size: HashBucketsParam::BucketsSize(16),
            key_buf_size: FileBufSizeParam::PerMille(1000),
            val_buf_size: FileBufSizeParam::PerMille(1000),
            htx_buf_size: FileBufSizeParam::PerMille(1000),
            ..Default::default()
        }
    }
    fn model(n: u32) -> Vec<(String, Vec<u8>)> {
        let mut v: Vec<_> = (0..n)
            .map(|i| (format!("key{i:04}"), vec![(i % 251) as u8; (i as usize * 7) % 300]))
            .collect();
        v.sort();
        v
    }
    fn contents(dir: &Path) -> Vec<(String, Vec<u8>)> {
        let db = abyssiniandb::open_file(dir).unwrap();
        let map = db.db_map_string_with_params("m", params()).unwrap();
        let mut v: Vec<(String, Vec<u8>)> =
            map.iter().map(|(k, v)| (String::from_utf8(k.to_vec()).unwrap(), v)).collect();
        v.sort();
        v
    }

    // the success path: every flush that returns Ok makes a copy of the directory
    // open to the current state, and flags are cleared (a second flush is a no-op).
    #[test]
    fn flush_ok_is_durable_and_repeatable() {
        let dir = fresh_dir("ok");
        let copy = fresh_dir("ok_copy");
        let db = abyssiniandb::open_file(&dir).unwrap();
        let mut map = db.db_map_string_with_params("m", params()).unwrap();
        for (k, v) in model(200) {
            map.put(k.as_str(), &v).unwrap();
        }
        for i in (0..200u32).step_by(3) {
            map.delete(format!("key{i:04}").as_str()).unwrap();
        }
        map.flush().unwrap();
        assert!(!map.is_dirty());
        map.flush().unwrap();
        for ext in ["htx", "key", "val"] {
            std::fs::copy(dir.join(format!("m.{ext}")), copy.join(format!("m.{ext}"))).unwrap();
        }
        let expect: Vec<_> = model(200)
            .into_iter()
            .filter(|(k, _)| k[3..].parse::<u32>().unwrap() % 3 != 0)
            .collect();
        assert_eq!(contents(&copy), expect);
        drop(map);
        drop(db);
        assert_eq!(contents(&dir), expect);
    }

    // the failure path: the value file lives on a device that refuses every write
    // (ENOSPC). flush must return Err (never Ok), every time it is called while the
    // condition lasts, and the in-memory view must stay fully correct.
    #[cfg(target_os = "linux")]
    #[test]
    fn flush_err_is_reported_and_view_stays_correct() {
        if !Path::new("/dev/full").exists() {
            return;
        }
        let dir = fresh_dir("full");
        std::os::unix::fs::symlink("/dev/full", dir.join("m.val")).unwrap();
        let db = abyssiniandb::open_file(&dir).unwrap();
        let mut map = db.db_map_string_with_params("m", params()).unwrap();
        let m = model(40);
        for (k, v) in &m {
            map.put(k.as_str(), v).unwrap();
        }
        for _ in 0..3 {
            assert!(map.flush().is_err());
            assert!(map.is_dirty());
            assert_eq!(map.len().unwrap(), m.len() as u64);
            for (k, v) in &m {
                assert_eq!(map.get(k.as_str()).unwrap().as_ref(), Some(v));
            }
        }
        assert!(map.sync_data().is_err());
        assert!(map.sync_all().is_err());
        let mut got: Vec<(String, Vec<u8>)> =
            map.iter().map(|(k, v)| (String::from_utf8(k.to_vec()).unwrap(), v)).collect();
        got.sort();
        assert_eq!(got, m);
    }
}
