// P2b: the iterators collect the key piece offsets when they are created.
// Checks only order-independent, documented facts (C04): every live entry once,
// exact size hints, fused end; also reopen (C02) and no side effects (C15).
use abyssiniandb::filedb::{FileBufSizeParam, FileDbParams, HashBucketsParam};
use abyssiniandb::{DbI64, DbMap, DbMapKeyType, DbString, DbXxx, DbXxxBase};
use std::collections::BTreeMap;

type Model = BTreeMap<Vec<u8>, Vec<u8>>;

fn drain<K: DbMapKeyType, I: Iterator<Item = (K, Vec<u8>)>>(mut it: I, n: usize) -> Model {
    let mut seen = Model::new();
    let mut left = n;
    loop {
        assert_eq!(it.size_hint(), (left, Some(left)));
        match it.next() {
            Some((k, v)) => {
                assert!(seen.insert(k.as_bytes().to_vec(), v).is_none(), "yielded twice");
                left -= 1;
            }
            None => break,
        }
    }
    assert_eq!(left, 0);
    for _ in 0..3 {
        assert!(it.next().is_none());
        assert_eq!(it.size_hint(), (0, Some(0)));
    }
    seen
}

fn check_all<K: DbMapKeyType, T: DbMap<K> + Clone + IntoIterator<Item = (K, Vec<u8>)>>(
    m: &mut T,
    model: &Model,
) {
    let n = model.len();
    assert_eq!(m.len().unwrap(), n as u64);
    assert_eq!(&drain(m.iter(), n), model);
    assert_eq!(&drain(m.iter_mut(), n), model);
    assert_eq!(&drain(m.clone().into_iter(), n), model);
    // keys() and values()
    let mut keys = m.keys();
    assert_eq!(keys.size_hint(), (n, Some(n)));
    let mut ks: Vec<Vec<u8>> = keys.by_ref().map(|k| k.as_bytes().to_vec()).collect();
    assert!(keys.next().is_none());
    ks.sort();
    assert_eq!(ks, model.keys().cloned().collect::<Vec<_>>());
    let mut values = m.values();
    assert_eq!(values.len(), n);
    let mut vs: Vec<Vec<u8>> = values.by_ref().collect();
    assert!(values.next().is_none());
    vs.sort();
    let mut mvs: Vec<Vec<u8>> = model.values().cloned().collect();
    mvs.sort();
    assert_eq!(vs, mvs);
    // two iterators at the same time, stepped alternately
    let (mut a, mut b) = (m.iter(), m.keys());
    let mut cnt = 0;
    while let (Some((ka, va)), Some(kb)) = (a.next(), b.next()) {
        assert_eq!(ka.as_bytes(), kb.as_bytes());
        assert_eq!(model.get(ka.as_bytes()), Some(&va));
        cnt += 1;
    }
    assert_eq!(cnt, n);
}

fn files(dir: &str, name: &str) -> Vec<Vec<u8>> {
    ["htx", "key", "val"]
        .iter()
        .map(|e| std::fs::read(format!("{dir}/{name}.{e}")).unwrap())
        .collect()
}

fn scenario_string(buckets: u64) {
    let dir = format!("target/tmp/seed_p2b/s{buckets}.abyssiniandb");
    let _ = std::fs::remove_dir_all(&dir);
    let mut model = Model::new();
    {
        let db = abyssiniandb::open_file(&dir).unwrap();
        let mut m = db
            .db_map_string_with_params(
                "it",
                FileDbParams {
                    buckets_size: HashBucketsParam::BucketsSize(buckets),
                    key_buf_size: FileBufSizeParam::Size(0),
                    ..Default::default()
                },
            )
            .unwrap();
        check_all::<DbString, _>(&mut m, &model);
        for i in 0..200u32 {
            let k = format!("k{i}");
            let v = vec![i as u8; (i * 7 % 300) as usize];
            m.put(&k, &v).unwrap();
            model.insert(k.into_bytes(), v);
        }
        check_all::<DbString, _>(&mut m, &model);
        // overwrite with longer values (relocation), delete every 4th
        for i in 0..200u32 {
            let k = format!("k{i}");
            if i % 4 == 0 {
                assert_eq!(m.delete(&k).unwrap(), model.remove(k.as_bytes()));
            } else if i % 4 == 1 {
                let v = vec![0x5a; 400 + i as usize];
                m.put(&k, &v).unwrap();
                model.insert(k.into_bytes(), v);
            }
        }
        m.put("", b"").unwrap();
        model.insert(Vec::new(), Vec::new());
        check_all::<DbString, _>(&mut m, &model);
        // for loops over references
        let mut cnt = 0;
        for (k, v) in &m {
            assert_eq!(model.get(k.as_bytes()), Some(&v));
            cnt += 1;
        }
        for (k, v) in &mut m {
            assert_eq!(model.get(k.as_bytes()), Some(&v));
            cnt += 1;
        }
        assert_eq!(cnt, 2 * model.len());
    }
    let before = files(&dir, "it");
    {
        let db = abyssiniandb::open_file(&dir).unwrap();
        let mut m = db.db_map_string("it").unwrap();
        check_all::<DbString, _>(&mut m, &model);
    }
    assert_eq!(before, files(&dir, "it"));
}

fn scenario_i64() {
    let dir = "target/tmp/seed_p2b/i64.abyssiniandb";
    let _ = std::fs::remove_dir_all(dir);
    let db = abyssiniandb::open_file(dir).unwrap();
    let mut m = db
        .db_map_i64_with_params(
            "it",
            FileDbParams {
                buckets_size: HashBucketsParam::Capacity(10),
                ..Default::default()
            },
        )
        .unwrap();
    let mut ints: Vec<i64> = (-60..60).map(|i: i64| i * 1_000_003).collect();
    ints.extend([i64::MIN, i64::MAX, 0]);
    ints.sort();
    ints.dedup();
    for &i in &ints {
        m.put(&i, i.to_string().as_bytes()).unwrap();
    }
    let mut got: Vec<(i64, Vec<u8>)> = m.iter().map(|(k, v)| (i64::from(k), v)).collect();
    got.sort();
    let want: Vec<(i64, Vec<u8>)> = ints.iter().map(|&i| (i, i.to_string().into_bytes())).collect();
    assert_eq!(got, want);
    let model: Model = m.iter().map(|(k, v)| (k.as_bytes().to_vec(), v)).collect();
    check_all::<DbI64, _>(&mut m, &model);
}

#[test]
fn seed_p2b_iterators() {
    for buckets in [1u64, 2, 8, 64, 512] {
        scenario_string(buckets);
    }
    scenario_i64();
}
