// P1a: the shared free list of large slots (>= 1 KiB) hands out the LAST
// fitting entry instead of the first one. Behaviour must be preserved.
mod seed_p1a {
    use abyssiniandb::filedb::{CheckFileDbMap, FileDbParams, HashBucketsParam};
    use abyssiniandb::{DbMap, DbXxx, DbXxxBase};
    use std::collections::BTreeMap;

    fn val(tag: u8, len: usize) -> Vec<u8> {
        (0..len).map(|i| tag.wrapping_add((i % 251) as u8)).collect()
    }
    fn large_free(v: &[(u32, u64)]) -> u64 {
        v.last().unwrap().1
    }
    fn file_len(db_name: &str, ext: &str) -> u64 {
        std::fs::metadata(format!("{db_name}/m.{ext}")).unwrap().len()
    }

    #[test]
    fn large_free_list_reuse_is_invisible() {
        let db_name = "target/tmp/seed_p1a.abyssiniandb";
        let _ = std::fs::remove_dir_all(db_name);
        let params = FileDbParams {
            buckets_size: HashBucketsParam::BucketsSize(16),
            ..Default::default()
        };
        let mut model: BTreeMap<String, Vec<u8>> = BTreeMap::new();
        {
            let db = abyssiniandb::open_file(db_name).unwrap();
            let mut m = db.db_map_string_with_params("m", params.clone()).unwrap();
            // several large values of different sizes, a small one in between.
            let sizes = [2000usize, 5000, 3000, 9000, 2500, 4000];
            for (i, &n) in sizes.iter().enumerate() {
                let k = format!("big{i}");
                let v = val(i as u8, n);
                m.put(k.as_str(), &v).unwrap();
                model.insert(k, v);
                let k = format!("small{i}");
                m.put(k.as_str(), b"x").unwrap();
                model.insert(k, b"x".to_vec());
            }
            // free all the large ones: six entries on the shared large list.
            for i in 0..sizes.len() {
                let k = format!("big{i}");
                assert_eq!(m.delete(k.as_str()).unwrap(), model.remove(&k));
            }
            assert_eq!(large_free(&m.count_of_free_value_piece().unwrap()), 6);
            m.flush().unwrap();
            let val_len_before = file_len(db_name, "val");
            // every one of these fits more than one free slot.
            for (i, &n) in [1500usize, 2800, 2100].iter().enumerate() {
                let k = format!("again{i}");
                let v = val(100 + i as u8, n);
                m.put(k.as_str(), &v).unwrap();
                model.insert(k, v);
                // a free slot was taken, the file did not grow.
                assert_eq!(
                    large_free(&m.count_of_free_value_piece().unwrap()),
                    5 - i as u64
                );
                m.flush().unwrap();
                assert_eq!(file_len(db_name, "val"), val_len_before);
            }
            // nothing fits 20000: the file is extended, the list is untouched.
            let v = val(7, 20000);
            m.put("huge", &v).unwrap();
            model.insert("huge".to_string(), v);
            assert_eq!(large_free(&m.count_of_free_value_piece().unwrap()), 3);
            m.flush().unwrap();
            assert!(file_len(db_name, "val") > val_len_before);
            // grow a reused one in place / out of place.
            let v = val(9, 8000);
            m.put("again0", &v).unwrap();
            model.insert("again0".to_string(), v);
            //
            assert_eq!(m.len().unwrap(), model.len() as u64);
            for (k, v) in &model {
                assert_eq!(m.get(k.as_str()).unwrap().as_ref(), Some(v));
            }
            let got: BTreeMap<String, Vec<u8>> = m
                .iter()
                .map(|(k, v)| (String::from_utf8_lossy(&k).to_string(), v))
                .collect();
            assert_eq!(got, model);
            // the value slot walk terminates and counts the live non-empty values.
            let _ = m.value_piece_size_stats().unwrap();
            let _ = m.value_length_stats().unwrap();
            m.sync_all().unwrap();
        }
        // reopen with other parameters
        {
            let db = abyssiniandb::open_file(db_name).unwrap();
            let mut m = db.db_map_string("m").unwrap();
            assert_eq!(m.len().unwrap(), model.len() as u64);
            for (k, v) in &model {
                assert_eq!(m.get(k.as_str()).unwrap().as_ref(), Some(v));
            }
            let mut n = 0;
            for (k, v) in m.iter() {
                let k = String::from_utf8_lossy(&k).to_string();
                assert_eq!(model.get(&k), Some(&v), "key: {k}");
                n += 1;
            }
            assert_eq!(n, model.len());
        }
    }
}
