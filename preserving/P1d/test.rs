// P1d: a new key is linked at the TAIL of its bucket chain instead of the head
// (the old tail record gets a longer `next` field and may have to move).
mod seed_p1d {
    use abyssiniandb::filedb::{CheckFileDbMap, FileDbMapDbBytes, FileDbParams, HashBucketsParam};
    use abyssiniandb::{DbMap, DbXxx, DbXxxBase};
    use std::collections::BTreeMap;

    type Model = BTreeMap<Vec<u8>, Vec<u8>>;

    // distinct keys of (nearly) every length 1..=44 and a few long ones, so that key records
    // sit on every slot-size boundary when their `next` field grows.
    fn key(i: u32) -> Vec<u8> {
        let len = match i % 47 {
            45 => 130,
            46 => 1100,
            n => n as usize,
        };
        let mut k = i.to_string().into_bytes();
        if k.len() < len {
            k.resize(len, b'a' + (i % 26) as u8);
        }
        k
    }
    fn check(m: &mut FileDbMapDbBytes, model: &Model) {
        assert_eq!(m.len().unwrap(), model.len() as u64);
        for (k, v) in model {
            assert!(m.includes_key(k.as_slice()).unwrap());
            assert_eq!(m.get(k.as_slice()).unwrap().as_ref(), Some(v));
        }
        let got: Vec<(Vec<u8>, Vec<u8>)> = m.iter().map(|(k, v)| (k.to_vec(), v)).collect();
        assert_eq!(got.len(), model.len());
        let got: Model = got.into_iter().collect();
        assert_eq!(&got, model);
        // statistics walk the slots of the key file and terminate;
        // they count the live non-empty keys.
        let _ = format!("{}", m.key_length_stats().unwrap());
        let _ = format!("{}", m.key_piece_size_stats().unwrap());
        let _ = m.count_of_free_key_piece().unwrap();
        let (filled, _) = m.htx_filling_rate_per_mill().unwrap();
        assert!(filled <= model.len() as u64);
        assert_eq!(filled == 0, model.is_empty());
    }

    fn run(buckets: u64) {
        let db_name = format!("target/tmp/seed_p1d_{buckets}.abyssiniandb");
        let _ = std::fs::remove_dir_all(&db_name);
        let params = FileDbParams {
            buckets_size: HashBucketsParam::BucketsSize(buckets),
            ..Default::default()
        };
        let mut model = Model::new();
        {
            let db = abyssiniandb::open_file(&db_name).unwrap();
            let mut m = db.db_map_bytes_with_params("m", params).unwrap();
            check(&mut m, &model);
            // long colliding chains: every insert rewrites the `next` of the old tail.
            for i in 0..600u32 {
                let k = key(i);
                let v = vec![i as u8; (i as usize * 7) % 300];
                m.put(k.as_slice(), &v).unwrap();
                model.insert(k, v);
                if i % 100 == 99 {
                    check(&mut m, &model);
                }
            }
            // the empty key
            m.put(b"".as_slice(), b"empty").unwrap();
            model.insert(Vec::new(), b"empty".to_vec());
            // absent keys are absent
            assert_eq!(m.get(b"nope".as_slice()).unwrap(), None);
            assert_eq!(m.delete(b"nope".as_slice()).unwrap(), None);
            // delete head / middle / tail members, then insert again (tail again).
            for i in (0..600u32).step_by(3) {
                let k = key(i);
                assert_eq!(m.delete(k.as_slice()).unwrap(), model.remove(&k));
            }
            check(&mut m, &model);
            for i in (0..600u32).step_by(6) {
                let k = key(i);
                let v = vec![!(i as u8); (i as usize * 11) % 500];
                m.put(k.as_slice(), &v).unwrap();
                model.insert(k, v);
            }
            check(&mut m, &model);
            // overwrite with longer values: value offsets in the key records grow too.
            for i in (1..600u32).step_by(5) {
                let k = key(i);
                let v = vec![i as u8; 2000 + (i as usize % 50)];
                m.put(k.as_slice(), &v).unwrap();
                model.insert(k, v);
            }
            check(&mut m, &model);
        }
        {
            let db = abyssiniandb::open_file(&db_name).unwrap();
            let mut m = db.db_map_bytes("m").unwrap();
            check(&mut m, &model);
            // bounded live set, many operations: the key file size is bounded by the live set
            // (a leak of one 16 byte slot per temporary key would more than double it).
            let mut sizes = Vec::new();
            for round in 0..30u32 {
                for i in 1000..1100u32 {
                    let k = key(i);
                    m.put(k.as_slice(), &[round as u8; 10]).unwrap();
                }
                for i in 1000..1100u32 {
                    let k = key(i);
                    assert!(m.delete(k.as_slice()).unwrap().is_some());
                }
                m.flush().unwrap();
                sizes.push(std::fs::metadata(format!("{db_name}/m.key")).unwrap().len());
            }
            let (first, last) = (sizes[0], sizes[29]);
            assert!(last <= first + first / 10, "key file keeps growing: {sizes:?}");
            check(&mut m, &model);
            let keys: Vec<Vec<u8>> = model.keys().cloned().collect();
            for k in keys {
                assert_eq!(m.delete(k.as_slice()).unwrap(), model.remove(&k));
            }
            check(&mut m, &model);
        }
    }

    #[test]
    fn chain_insertion_is_invisible_1_bucket() {
        run(1);
    }
    #[test]
    fn chain_insertion_is_invisible_4_buckets() {
        run(4);
    }
    #[test]
    fn chain_insertion_is_invisible_256_buckets() {
        run(256);
    }
}
