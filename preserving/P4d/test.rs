// P4d: iterators hold their own clone of the table handle and re-read the
// buckets size from the table header on every step.
//
// Public API only. Passes with and without the change.
mod p4d {
    use abyssiniandb::filedb::{FileBufSizeParam, FileDbMapDbU64, FileDbParams, HashBucketsParam};
    use abyssiniandb::{DbMap, DbXxx, DbXxxBase};
    use std::collections::BTreeMap;
    use std::path::{Path, PathBuf};

    type Model = BTreeMap<u64, Vec<u8>>;

    fn fresh_dir(name: &str) -> PathBuf {
        let p = PathBuf::from(format!("target/tmp/p4d/{name}"));
        let _ = std::fs::remove_dir_all(&p);
        std::fs::create_dir_all(&p).unwrap();
        p
    }
    fn params(buckets: u64, buf: u32) -> FileDbParams {
        FileDbParams {
            buckets_size: HashBucketsParam::BucketsSize(buckets),
            key_buf_size: FileBufSizeParam::Size(buf),
            val_buf_size: FileBufSizeParam::Size(buf),
            htx_buf_size: FileBufSizeParam::Size(buf),
            ..Default::default()
        }
    }
    fn snapshot(dir: &Path) -> Vec<Vec<u8>> {
        ["m.htx", "m.key", "m.val"]
            .iter()
            .map(|f| std::fs::read(dir.join(f)).unwrap())
            .collect()
    }
    fn to_u64(k: &[u8]) -> u64 {
        let mut a = [0u8; 8];
        a.copy_from_slice(k);
        u64::from_le_bytes(a)
    }
    // drives an iterator to its end, checking the exact size hint before every step
    // and that it stays finished.
    fn drain<I: Iterator>(mut it: I, n: usize) -> Vec<I::Item> {
        let mut out = Vec::new();
        loop {
            assert_eq!(it.size_hint(), (n - out.len(), Some(n - out.len())));
            match it.next() {
                Some(x) => out.push(x),
                None => break,
            }
        }
        assert_eq!(out.len(), n);
        for _ in 0..3 {
            assert!(it.next().is_none());
            assert_eq!(it.size_hint(), (0, Some(0)));
        }
        out
    }
    fn check_all_iterators(map: &mut FileDbMapDbU64, model: &Model) {
        let n = model.len();
        assert_eq!(map.len().unwrap(), n as u64);
        let mut pairs: Vec<(u64, Vec<u8>)> = drain(map.iter(), n)
            .into_iter()
            .map(|(k, v)| (to_u64(&k), v))
            .collect();
        // the order is the same for every kind of iterator over the same state.
        let keys: Vec<u64> = drain(map.keys(), n).iter().map(|k| to_u64(k)).collect();
        let values: Vec<Vec<u8>> = drain(map.values(), n);
        let pairs_mut: Vec<(u64, Vec<u8>)> = drain(map.iter_mut(), n)
            .into_iter()
            .map(|(k, v)| (to_u64(&k), v))
            .collect();
        let pairs_ref: Vec<(u64, Vec<u8>)> = drain((&*map).into_iter(), n)
            .into_iter()
            .map(|(k, v)| (to_u64(&k), v))
            .collect();
        let pairs_into: Vec<(u64, Vec<u8>)> = drain(map.clone().into_iter(), n)
            .into_iter()
            .map(|(k, v)| (to_u64(&k), v))
            .collect();
        assert_eq!(pairs, pairs_mut);
        assert_eq!(pairs, pairs_ref);
        assert_eq!(pairs, pairs_into);
        assert_eq!(keys, pairs.iter().map(|p| p.0).collect::<Vec<_>>());
        assert_eq!(values, pairs.iter().map(|p| p.1.clone()).collect::<Vec<_>>());
        // each live entry exactly once, nothing else.
        pairs.sort();
        let expect: Vec<(u64, Vec<u8>)> = model.iter().map(|(k, v)| (*k, v.clone())).collect();
        assert_eq!(pairs, expect);
    }
    fn history(map: &mut FileDbMapDbU64, model: &mut Model, with_iteration: bool) {
        for i in 0..500u64 {
            let k = (i * 7919) % 131;
            if i % 4 == 3 {
                assert_eq!(map.delete(&k).unwrap(), model.remove(&k));
            } else {
                let v = vec![(i % 256) as u8; ((i * 29) % 1500) as usize];
                map.put(&k, &v).unwrap();
                model.insert(k, v);
            }
            if with_iteration && i % 50 == 49 {
                check_all_iterators(map, model);
            }
        }
    }

    #[test]
    fn iterators_for_every_table_and_buffer_size() {
        for &buckets in &[1u64, 2, 8, 64, 4096] {
            for &buf in &[1u32, 1 << 22] {
                let dir = fresh_dir(&format!("it_{buckets}_{buf}"));
                let mut model = Model::new();
                {
                    let db = abyssiniandb::open_file(&dir).unwrap();
                    let mut map = db.db_map_u64_with_params("m", params(buckets, buf)).unwrap();
                    check_all_iterators(&mut map, &model); // empty map
                    history(&mut map, &mut model, true);
                    // an iterator keeps working when its map handle is gone.
                    let it = map.iter();
                    let it2 = db.db_map_u64("m").unwrap().keys();
                    drop(map);
                    assert_eq!(drain(it, model.len()).len(), model.len());
                    assert_eq!(drain(it2, model.len()).len(), model.len());
                }
                // read-only: reopening (with other parameters) and iterating leaves
                // the files byte-for-byte unchanged.
                let before = snapshot(&dir);
                {
                    let db = abyssiniandb::open_file(&dir).unwrap();
                    let mut map = db.db_map_u64_with_params("m", params(buckets * 4, buf)).unwrap();
                    check_all_iterators(&mut map, &model);
                    map.flush().unwrap();
                    assert_eq!(snapshot(&dir), before);
                }
                assert_eq!(snapshot(&dir), before);
            }
        }
    }

    // interleaved iteration does not change the image (determinism).
    #[test]
    fn image_is_independent_of_interleaved_iteration() {
        for &buf in &[1u32, 1 << 22] {
            let d1 = fresh_dir(&format!("det_{buf}_plain"));
            let d2 = fresh_dir(&format!("det_{buf}_iter"));
            for (dir, with_iteration) in [(&d1, false), (&d2, true)] {
                let db = abyssiniandb::open_file(dir).unwrap();
                let mut map = db.db_map_u64_with_params("m", params(16, buf)).unwrap();
                history(&mut map, &mut Model::new(), with_iteration);
            }
            assert_eq!(snapshot(&d1), snapshot(&d2));
        }
    }
}
