// P2d: the header check on open reads the leading 24 bytes at once and reports a
// mismatch as an error value. Checks C13 (wrong key type / foreign signature is
// refused by panic OR error, files untouched, nothing created), C12/C02 (the right
// type still opens with the same contents).
use abyssiniandb::filedb::{FileDb, FileDbParams, HashBucketsParam};
use abyssiniandb::{DbMap, DbMapKeyType, DbXxx, DbXxxBase};
use std::collections::BTreeMap;
use std::panic::{catch_unwind, AssertUnwindSafe};

type Model = BTreeMap<Vec<u8>, Vec<u8>>;

fn snapshot(dir: &str) -> BTreeMap<String, Vec<u8>> {
    let mut r = BTreeMap::new();
    for e in std::fs::read_dir(dir).unwrap() {
        let e = e.unwrap();
        r.insert(e.file_name().to_str().unwrap().to_string(), std::fs::read(e.path()).unwrap());
    }
    r
}

fn contents<K: DbMapKeyType, T: DbMap<K>>(m: &mut T) -> Model {
    let r: Model = m.iter().map(|(k, v)| (k.as_bytes().to_vec(), v)).collect();
    assert_eq!(m.len().unwrap(), r.len() as u64);
    r
}

fn params() -> FileDbParams {
    FileDbParams {
        buckets_size: HashBucketsParam::BucketsSize(16),
        ..Default::default()
    }
}

/// tries to open `name` as key type `ty`; returns true when it was refused
/// (by a panic or by an error) before anything could be looked up.
fn refused(dir: &str, ty: &str, name: &str) -> bool {
    let r = catch_unwind(AssertUnwindSafe(|| -> std::io::Result<Option<Vec<u8>>> {
        let db: FileDb = abyssiniandb::open_file(dir)?;
        match ty {
            "string" => db.db_map_string_with_params(name, params())?.get("k1"),
            "bytes" => db.db_map_bytes(name)?.get(b"k1"),
            "i64" => db.db_map_i64(name)?.get(&1i64),
            "u64" => db.db_map_u64_with_params(name, params())?.get(&1u64),
            "vu64" => db.db_map_vu64(name)?.get(&1u64),
            _ => unreachable!(),
        }
    }));
    match r {
        Err(_panic) => true,
        Ok(Err(_io_error)) => true,
        Ok(Ok(_lookup_result)) => false,
    }
}

#[test]
fn seed_p2d_wrong_type_and_foreign_signature() {
    let dir = "target/tmp/seed_p2d/db.abyssiniandb";
    let _ = std::fs::remove_dir_all(dir);
    let mut models: BTreeMap<&str, Model> = BTreeMap::new();
    {
        let db = abyssiniandb::open_file(dir).unwrap();
        let mut s = db.db_map_string_with_params("string", params()).unwrap();
        let mut b = db.db_map_bytes_with_params("bytes", params()).unwrap();
        let mut i = db.db_map_i64_with_params("i64", params()).unwrap();
        let mut u = db.db_map_u64_with_params("u64", params()).unwrap();
        let mut v = db.db_map_vu64_with_params("vu64", params()).unwrap();
        for n in 0..40u64 {
            let val = vec![n as u8; (n * 11 % 90) as usize];
            s.put(&format!("k{n}"), &val).unwrap();
            b.put(format!("k{n}").as_bytes(), &val).unwrap();
            i.put(&(n as i64 - 20), &val).unwrap();
            u.put(&(n << 40), &val).unwrap();
            v.put(&(n << 40), &val).unwrap();
        }
        models.insert("string", contents(&mut s));
        models.insert("bytes", contents(&mut b));
        models.insert("i64", contents(&mut i));
        models.insert("u64", contents(&mut u));
        models.insert("vu64", contents(&mut v));
    }
    let before = snapshot(dir);
    assert_eq!(before.len(), 15);
    // every map as every other key type (u64 and vu64 share their type signature).
    let types = ["string", "bytes", "i64", "u64", "vu64"];
    for name in types {
        for ty in types {
            let same = name == ty || (name.ends_with("u64") && ty.ends_with("u64"));
            if same {
                continue;
            }
            assert!(refused(dir, ty, name), "{name} opened as {ty}");
            assert_eq!(before, snapshot(dir), "files changed: {name} opened as {ty}");
        }
    }
    // the right type is not refused
    for ty in types {
        assert!(!refused(dir, ty, ty));
    }
    assert_eq!(before, snapshot(dir));

    // foreign leading signature in one of the three files of a copy of "string"
    for ext in ["key", "val", "htx"] {
        for pos in [0usize, 6, 7] {
            for e in ["key", "val", "htx"] {
                let mut data = before[&format!("string.{e}")].clone();
                if e == ext {
                    data[pos] ^= 0x20;
                }
                std::fs::write(format!("{dir}/foreign.{e}"), data).unwrap();
            }
            let before_f = snapshot(dir);
            assert!(refused(dir, "string", "foreign"), "foreign .{ext} byte {pos}");
            assert_eq!(before_f, snapshot(dir));
        }
    }
    // a file that is something else entirely
    for e in ["key", "val", "htx"] {
        std::fs::write(format!("{dir}/foreign.{e}"), vec![b'#'; 4096]).unwrap();
    }
    let before_f = snapshot(dir);
    assert!(refused(dir, "string", "foreign"));
    assert!(refused(dir, "u64", "foreign"));
    assert_eq!(before_f, snapshot(dir));
    for e in ["key", "val", "htx"] {
        std::fs::remove_file(format!("{dir}/foreign.{e}")).unwrap();
    }

    // after all refusals in the same directory, the maps open with identical contents,
    // a refused open through a handle does not disturb the maps already open in it.
    let db = abyssiniandb::open_file(dir).unwrap();
    let mut s = db.db_map_string("string").unwrap();
    let r = catch_unwind(AssertUnwindSafe(|| db.db_map_i64("string").map(|_| ())));
    assert!(!matches!(r, Ok(Ok(()))));
    assert_eq!(&contents(&mut s), &models["string"]);
    assert_eq!(&contents(&mut db.db_map_bytes("bytes").unwrap()), &models["bytes"]);
    assert_eq!(&contents(&mut db.db_map_i64("i64").unwrap()), &models["i64"]);
    assert_eq!(&contents(&mut db.db_map_u64("u64").unwrap()), &models["u64"]);
    assert_eq!(&contents(&mut db.db_map_vu64("vu64").unwrap()), &models["vu64"]);
    s.put("new", b"entry").unwrap();
    assert_eq!(s.get("new").unwrap(), Some(b"entry".to_vec()));
    assert_eq!(s.len().unwrap(), 41);
    drop(s);
    drop(db);
    let after = snapshot(dir);
    assert_eq!(after.len(), 15);
    for (name, data) in &before {
        if !name.starts_with("string.") {
            assert_eq!(data, &after[name], "{name}");
        }
    }
}
