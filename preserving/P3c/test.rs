// P3c: put of an existing key always writes the key record back, also when the
// value stayed in its slot (the identical bytes are written in place).
//
// Overwrites existing keys (same value, same-length value, shorter value, value of
// another size class) for keys at every chain position and for short and long keys,
// checks the model, checks that an in-place overwrite leaves the key file
// byte-identical and moves nothing (no free slots appear, no file grows), that a
// put of the identical value leaves all three files byte-identical, that read-only
// calls leave the files unchanged, reopen, and two-run determinism.
mod seed_p3c {
    use abyssiniandb::filedb::{CheckFileDbMap, FileDbParams, HashBucketsParam};
    use abyssiniandb::{DbMap, DbMapKeyType, DbXxx, DbXxxBase};
    use std::collections::BTreeMap;

    fn val(seed: u64, len: usize) -> Vec<u8> {
        let mut x = seed.wrapping_mul(0x9E37_79B9_7F4A_7C15) | 1;
        (0..len)
            .map(|_| {
                x ^= x << 13;
                x ^= x >> 7;
                x ^= x << 17;
                (x >> 24) as u8
            })
            .collect()
    }

    fn free_total(v: &[(u32, u64)]) -> u64 {
        v.iter().map(|a| a.1).sum()
    }

    fn files(dir: &str) -> Vec<Vec<u8>> {
        ["htx", "key", "val"]
            .iter()
            .map(|ext| std::fs::read(format!("{dir}/m.{ext}")).unwrap())
            .collect()
    }

    fn run(dir: &str) -> (BTreeMap<Vec<u8>, Vec<u8>>, Vec<Vec<u8>>) {
        let _ = std::fs::remove_dir_all(dir);
        let mut model: BTreeMap<Vec<u8>, Vec<u8>> = BTreeMap::new();
        // keys of 0 .. 5000 bytes: key records in small and in large slots.
        let keys: Vec<Vec<u8>> = [0usize, 1, 5, 9, 10, 11, 17, 40, 120, 900, 1010, 5000]
            .iter()
            .enumerate()
            .flat_map(|(i, &l)| {
                let mut a = val(i as u64 + 77, l);
                let mut b = a.clone();
                a.push(b'a');
                b.push(b'b');
                vec![a, b]
            })
            .collect();
        {
            let db = abyssiniandb::open_file(dir).unwrap();
            let mut m = db
                .db_map_bytes_with_params(
                    "m",
                    FileDbParams {
                        buckets_size: HashBucketsParam::BucketsSize(4),
                        ..Default::default()
                    },
                )
                .unwrap();
            for (i, k) in keys.iter().enumerate() {
                let v = val(i as u64, 40 + i);
                m.put(k.as_slice(), &v).unwrap();
                model.insert(k.clone(), v);
            }
            m.flush().unwrap();
            let f0 = files(dir);
            // 1. put of the identical value: nothing changes on disk.
            for k in keys.iter() {
                let v = model.get(k).unwrap().clone();
                m.put(k.as_slice(), &v).unwrap();
            }
            m.flush().unwrap();
            let f1 = files(dir);
            assert!(f0 == f1, "put of identical values must leave the files unchanged");
            // 2. another value of the same length / a shorter one: stays in its slot.
            //    the key file and the table file are unchanged, nothing becomes free.
            for (i, k) in keys.iter().enumerate() {
                let l = model.get(k).unwrap().len();
                let v = val(1000 + i as u64, if i % 2 == 0 { l } else { l - 3 });
                m.put(k.as_slice(), &v).unwrap();
                model.insert(k.clone(), v);
            }
            m.flush().unwrap();
            let f2 = files(dir);
            assert!(f2[0] == f1[0], "table file unchanged by in-place overwrites");
            assert!(f2[1] == f1[1], "key file unchanged by in-place overwrites");
            assert!(f2[2] != f1[2]);
            assert_eq!(f2[2].len(), f1[2].len());
            assert_eq!(free_total(&m.count_of_free_key_piece().unwrap()), 0);
            assert_eq!(free_total(&m.count_of_free_value_piece().unwrap()), 0);
            for (k, v) in model.iter() {
                assert_eq!(m.get(k.as_slice()).unwrap().as_ref(), Some(v));
            }
            // 3. read-only calls on the flushed map leave the files alone.
            for k in keys.iter() {
                let _ = m.get(k.as_slice()).unwrap();
                let _ = m.includes_key(k.as_slice()).unwrap();
            }
            let _ = m.len().unwrap();
            let _ = m.iter().count();
            m.flush().unwrap();
            assert!(files(dir) == f2, "read-only calls must not change the files");
            // 4. values of other size classes: records move, everything stays readable.
            for round in 0..6u64 {
                for (i, k) in keys.iter().enumerate() {
                    let l = [3usize, 200, 0, 1500, 70, 20_000][((round + i as u64) % 6) as usize];
                    let v = val(round * 50 + i as u64, l);
                    m.put(k.as_slice(), &v).unwrap();
                    model.insert(k.clone(), v);
                    assert_eq!(m.len().unwrap(), keys.len() as u64);
                }
                for (k, v) in model.iter() {
                    assert_eq!(m.get(k.as_slice()).unwrap().as_ref(), Some(v));
                }
            }
            let it: BTreeMap<Vec<u8>, Vec<u8>> =
                m.iter().map(|(k, v)| (k.as_bytes().to_vec(), v)).collect();
            assert!(it == model, "iteration differs from the model");
            let _ = m.key_piece_size_stats().unwrap().to_string();
            let _ = m.key_length_stats().unwrap().to_string();
        }
        {
            let db = abyssiniandb::open_file(dir).unwrap();
            let mut m = db.db_map_bytes("m").unwrap();
            assert_eq!(m.len().unwrap(), model.len() as u64);
            for (k, v) in model.iter() {
                assert_eq!(m.get(k.as_slice()).unwrap().as_ref(), Some(v));
            }
        }
        (model, files(dir))
    }

    #[test]
    fn overwrite_existing_keys_in_place_and_determinism() {
        let (m1, f1) = run("target/tmp/seed_p3c/run1.abyssiniandb");
        let (m2, f2) = run("target/tmp/seed_p3c/run2.abyssiniandb");
        assert!(m1 == m2);
        assert!(f1 == f2, "same history must give byte-identical files");
    }
}
