// P2a: the occupancy bitmap of the .htx file is a conservative hint
// (flag set when a bucket becomes non-empty, never cleared).
// Checks only documented facts: model equivalence, iteration, reopen,
// "every non-empty bucket is flagged", stored count, filling figure.
use abyssiniandb::filedb::{CheckFileDbMap, FileDbParams, HashBucketsParam};
use abyssiniandb::{DbMap, DbMapKeyType, DbString, DbXxx, DbXxxBase};
use std::collections::BTreeMap;

fn rd_u64(b: &[u8], off: usize) -> u64 {
    let mut a = [0u8; 8];
    a.copy_from_slice(&b[off..off + 8]);
    u64::from_le_bytes(a)
}

/// decodes the .htx file by the documented layout; returns (item count, non-empty buckets).
fn check_htx(dir: &str, name: &str, expect_buckets: u64) -> (u64, u64) {
    let b = std::fs::read(format!("{dir}/{name}.htx")).unwrap();
    assert_eq!(&b[0..8], b"abysdbH\0");
    let n = rd_u64(&b, 16);
    assert_eq!(n, expect_buckets);
    assert_eq!(b.len() as u64, 128 + 8 * n + n / 8);
    let bitmap = 128 + 8 * n as usize;
    let mut non_empty = 0;
    for idx in 0..n as usize {
        let head = rd_u64(&b, 128 + 8 * idx);
        if head != 0 {
            non_empty += 1;
            let flag = b[bitmap + idx / 8] & (1 << (idx % 8));
            assert!(flag != 0, "non-empty bucket {idx} is not flagged");
        }
    }
    (rd_u64(&b, 24), non_empty)
}

fn check_iter<T: DbMap<DbString>>(m: &mut T, model: &BTreeMap<String, Vec<u8>>) {
    assert_eq!(m.len().unwrap(), model.len() as u64);
    assert_eq!(m.is_empty().unwrap(), model.is_empty());
    let mut it = m.iter();
    let mut seen = BTreeMap::new();
    let mut left = model.len();
    loop {
        assert_eq!(it.size_hint(), (left, Some(left)));
        match it.next() {
            Some((k, v)) => {
                let k = String::from_utf8(k.as_bytes().to_vec()).unwrap();
                assert!(seen.insert(k, v).is_none(), "key yielded twice");
                left -= 1;
            }
            None => break,
        }
    }
    assert!(it.next().is_none());
    assert_eq!(&seen, model);
    let keys: Vec<_> = m.keys().collect();
    let values: Vec<_> = m.values().collect();
    assert_eq!(keys.len(), model.len());
    assert_eq!(values.len(), model.len());
}

fn scenario(buckets: u64) {
    let dir = format!("target/tmp/seed_p2a/b{buckets}.abyssiniandb");
    let _ = std::fs::remove_dir_all(&dir);
    let params = || FileDbParams {
        buckets_size: HashBucketsParam::BucketsSize(buckets),
        ..Default::default()
    };
    let mut model: BTreeMap<String, Vec<u8>> = BTreeMap::new();
    {
        let db = abyssiniandb::open_file(&dir).unwrap();
        let mut m = db.db_map_string_with_params("bm", params()).unwrap();
        check_iter(&mut m, &model);
        for i in 0..300u32 {
            let k = format!("key-{i:04}");
            let v = vec![(i % 251) as u8; (i % 40) as usize];
            m.put(&k, &v).unwrap();
            model.insert(k, v);
        }
        check_iter(&mut m, &model);
        // empties many buckets (all of them for large tables)
        for i in 0..300u32 {
            if i % 3 != 0 {
                let k = format!("key-{i:04}");
                assert_eq!(m.delete(&k).unwrap(), model.remove(&k));
            }
        }
        check_iter(&mut m, &model);
        m.flush().unwrap();
        let (count, non_empty) = check_htx(&dir, "bm", buckets);
        assert_eq!(count, model.len() as u64);
        assert_eq!(m.htx_filling_rate_per_mill().unwrap().0, non_empty);
        // empty the whole map: every bucket is empty now.
        let keys: Vec<String> = model.keys().cloned().collect();
        for k in keys {
            assert_eq!(m.delete(&k).unwrap(), model.remove(&k));
            assert_eq!(m.get(&k).unwrap(), None);
        }
        check_iter(&mut m, &model);
        m.sync_data().unwrap();
        assert_eq!(check_htx(&dir, "bm", buckets), (0, 0));
        assert_eq!(m.htx_filling_rate_per_mill().unwrap(), (0, 0));
        // refill with other keys
        for i in 0..50u32 {
            let k = format!("other-{i}");
            let v = k.as_bytes().to_vec();
            m.put(&k, &v).unwrap();
            model.insert(k, v);
        }
        check_iter(&mut m, &model);
    }
    // closed: decode the file, then reopen with other parameters.
    let (count, non_empty) = check_htx(&dir, "bm", buckets);
    assert_eq!(count, model.len() as u64);
    assert!(non_empty >= 1 && non_empty <= count);
    let before = std::fs::read(format!("{dir}/bm.htx")).unwrap();
    {
        let db = abyssiniandb::open_file(&dir).unwrap();
        let mut m = db.db_map_string("bm").unwrap();
        check_iter(&mut m, &model);
        for (k, v) in model.iter() {
            assert_eq!(m.get(k).unwrap().as_ref(), Some(v));
        }
        assert_eq!(m.htx_filling_rate_per_mill().unwrap().0, non_empty);
        m.sync_all().unwrap();
    }
    // read-only session left the file unchanged.
    assert_eq!(before, std::fs::read(format!("{dir}/bm.htx")).unwrap());
}

#[test]
fn seed_p2a_bitmap_hint() {
    for buckets in [8u64, 16, 64, 1024, 4096] {
        scenario(buckets);
    }
}
