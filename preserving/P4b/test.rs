// P4b: flush() additionally asks the OS to sync (behaves like sync_data).
//
// Public API only. Passes with and without the change.
mod p4b {
    use abyssiniandb::filedb::{FileBufSizeParam, FileDbParams, HashBucketsParam};
    use abyssiniandb::{DbMap, DbXxx, DbXxxBase};
    use std::collections::BTreeMap;
    use std::path::{Path, PathBuf};

    fn fresh_dir(name: &str) -> PathBuf {
        let p = PathBuf::from(format!("target/tmp/p4b/{name}"));
        let _ = std::fs::remove_dir_all(&p);
        std::fs::create_dir_all(&p).unwrap();
        p
    }
    fn params(buf: u32) -> FileDbParams {
        FileDbParams {
            buckets_size: HashBucketsParam::BucketsSize(32),
            key_buf_size: FileBufSizeParam::Size(buf),
            val_buf_size: FileBufSizeParam::Size(buf),
            htx_buf_size: FileBufSizeParam::Size(buf),
            ..Default::default()
        }
    }
    fn snapshot(dir: &Path) -> Vec<Vec<u8>> {
        ["m.htx", "m.key", "m.val"]
            .iter()
            .map(|f| std::fs::read(dir.join(f)).unwrap())
            .collect()
    }
    fn copy_db(from: &Path, to: &Path) {
        for f in ["m.htx", "m.key", "m.val"] {
            std::fs::copy(from.join(f), to.join(f)).unwrap();
        }
    }
    fn contents(dir: &Path) -> BTreeMap<Vec<u8>, Vec<u8>> {
        let db = abyssiniandb::open_file(dir).unwrap();
        let map = db.db_map_bytes_with_params("m", params(1 << 20)).unwrap();
        let n = map.len().unwrap();
        let r: BTreeMap<Vec<u8>, Vec<u8>> = map.iter().map(|(k, v)| (k.to_vec(), v)).collect();
        assert_eq!(r.len() as u64, n);
        r
    }

    // every Ok from flush / sync_data / sync_all, in any interleaving, leaves
    // a directory whose copy opens to the current state.
    fn durable_after_every_call(buf: u32, tag: &str) {
        let dir = fresh_dir(&format!("dur_{tag}"));
        let copy = fresh_dir(&format!("dur_{tag}_copy"));
        let db = abyssiniandb::open_file(&dir).unwrap();
        let mut map = db.db_map_bytes_with_params("m", params(buf)).unwrap();
        let mut model: BTreeMap<Vec<u8>, Vec<u8>> = BTreeMap::new();
        // created and never updated: a valid empty map.
        map.flush().unwrap();
        copy_db(&dir, &copy);
        assert_eq!(contents(&copy), model);
        //
        for round in 0..12u32 {
            for i in 0..40u32 {
                let k = format!("k{:03}", (i * 7 + round * 3) % 97).into_bytes();
                if (i + round) % 5 == 0 {
                    assert_eq!(map.delete(&k[..]).unwrap(), model.remove(&k));
                } else {
                    let v = vec![(i + round) as u8; ((i * 37 + round * 11) % 700) as usize];
                    map.put(&k[..], &v).unwrap();
                    model.insert(k, v);
                }
            }
            match round % 4 {
                0 => map.flush().unwrap(),
                1 => {
                    map.flush().unwrap();
                    map.sync_all().unwrap();
                }
                2 => map.sync_data().unwrap(),
                _ => {
                    map.flush().unwrap();
                    map.flush().unwrap();
                    db.sync_data().unwrap();
                }
            }
            assert!(!map.is_dirty());
            copy_db(&dir, &copy);
            assert_eq!(contents(&copy), model);
            assert_eq!(map.len().unwrap(), model.len() as u64);
        }
        drop(map);
        drop(db);
        assert_eq!(contents(&dir), model);
    }
    #[test]
    fn durable_after_every_call_large_buffers() {
        durable_after_every_call(1 << 20, "large");
    }
    #[test]
    fn durable_after_every_call_small_buffers() {
        durable_after_every_call(1, "small");
    }

    // flush / sync on an unmodified map write nothing: files stay byte-identical.
    #[test]
    fn flush_on_unmodified_map_changes_nothing() {
        let dir = fresh_dir("unmod");
        {
            let db = abyssiniandb::open_file(&dir).unwrap();
            let mut map = db.db_map_bytes_with_params("m", params(1 << 20)).unwrap();
            for i in 0..100u32 {
                map.put(&i.to_le_bytes()[..], &vec![7u8; i as usize]).unwrap();
            }
        }
        let before = snapshot(&dir);
        {
            let db = abyssiniandb::open_file(&dir).unwrap();
            let mut map = db.db_map_bytes_with_params("m", params(1 << 20)).unwrap();
            assert!(!map.is_dirty());
            map.flush().unwrap();
            map.sync_data().unwrap();
            map.sync_all().unwrap();
            map.flush().unwrap();
            db.sync_all().unwrap();
            assert_eq!(snapshot(&dir), before);
        }
        assert_eq!(snapshot(&dir), before);
    }
}
