// P1b: flush()/sync_*() write out and sync the three files in another order
// (htx, key, val) and sync_*() flushes all of them before the first sync request.
// Durability and contents must be preserved.
mod seed_p1b {
    use abyssiniandb::filedb::{FileBufSizeParam, FileDbParams, HashBucketsParam};
    use abyssiniandb::{DbMap, DbXxx, DbXxxBase};
    use std::collections::BTreeMap;

    type Model = BTreeMap<u64, Vec<u8>>;

    fn copy_dir(from: &str, to: &str) {
        let _ = std::fs::remove_dir_all(to);
        std::fs::create_dir_all(to).unwrap();
        for e in std::fs::read_dir(from).unwrap() {
            let e = e.unwrap();
            std::fs::copy(e.path(), format!("{to}/{}", e.file_name().to_str().unwrap())).unwrap();
        }
    }
    fn read_dir_bytes(dir: &str) -> BTreeMap<String, Vec<u8>> {
        let mut r = BTreeMap::new();
        for e in std::fs::read_dir(dir).unwrap() {
            let e = e.unwrap();
            r.insert(
                e.file_name().to_str().unwrap().to_string(),
                std::fs::read(e.path()).unwrap(),
            );
        }
        r
    }
    // a snapshot of the directory must open to exactly `model`.
    fn check_snapshot(db_name: &str, snap: &str, model: &Model) {
        copy_dir(db_name, snap);
        let db = abyssiniandb::open_file(snap).unwrap();
        let mut m = db.db_map_u64("m").unwrap();
        assert_eq!(m.len().unwrap(), model.len() as u64);
        for (k, v) in model {
            assert_eq!(m.get(k).unwrap().as_ref(), Some(v));
        }
        let got: Model = m.iter().map(|(k, v)| (k.into(), v)).collect();
        assert_eq!(&got, model);
    }
    fn update(m: &mut abyssiniandb::filedb::FileDbMapDbU64, model: &mut Model, round: u64) {
        for i in 0..300u64 {
            let k = (i * 7 + round) % 400;
            if (i + round) % 5 == 0 {
                assert_eq!(m.delete(&k).unwrap(), model.remove(&k));
            } else {
                let v = vec![(k + round) as u8; ((k * 13 + round * 101) % 1500) as usize];
                m.put(&k, &v).unwrap();
                model.insert(k, v);
            }
        }
    }

    #[test]
    fn flush_and_sync_make_updates_durable() {
        let db_name = "target/tmp/seed_p1b.abyssiniandb";
        let snap = "target/tmp/seed_p1b_snap.abyssiniandb";
        let _ = std::fs::remove_dir_all(db_name);
        let params = FileDbParams {
            buckets_size: HashBucketsParam::BucketsSize(64),
            key_buf_size: FileBufSizeParam::Size(0),
            val_buf_size: FileBufSizeParam::Size(0),
            ..Default::default()
        };
        let mut model = Model::new();
        {
            let db = abyssiniandb::open_file(db_name).unwrap();
            let mut m = db.db_map_u64_with_params("m", params).unwrap();
            // created and never updated: flush gives a valid empty map.
            m.flush().unwrap();
            check_snapshot(db_name, snap, &model);
            //
            update(&mut m, &mut model, 1);
            m.flush().unwrap();
            check_snapshot(db_name, snap, &model);
            update(&mut m, &mut model, 2);
            m.sync_data().unwrap();
            check_snapshot(db_name, snap, &model);
            update(&mut m, &mut model, 3);
            m.sync_all().unwrap();
            check_snapshot(db_name, snap, &model);
            update(&mut m, &mut model, 4);
            m.flush().unwrap();
            m.sync_all().unwrap();
            check_snapshot(db_name, snap, &model);
            update(&mut m, &mut model, 5);
            db.sync_data().unwrap();
            check_snapshot(db_name, snap, &model);
            update(&mut m, &mut model, 6);
            db.sync_all().unwrap();
            check_snapshot(db_name, snap, &model);
            // flush/sync on an unmodified map: files stay byte-identical.
            let before = read_dir_bytes(db_name);
            m.flush().unwrap();
            m.sync_data().unwrap();
            m.sync_all().unwrap();
            db.sync_all().unwrap();
            assert_eq!(before, read_dir_bytes(db_name));
            // the in-memory view is intact
            for (k, v) in &model {
                assert_eq!(m.get(k).unwrap().as_ref(), Some(v));
            }
            update(&mut m, &mut model, 7);
        }
        // clean close without an explicit flush
        check_snapshot(db_name, snap, &model);
    }
}
