// P3d: open - the three files of a map are opened/created in another order
// (table file, value file, key file instead of key, value, table).
//
// Creates maps of all five key types in one directory, checks that a map that was
// only created and flushed reopens as a valid empty map with its three files in
// place, that parameters given on reopen are ignored, that maps are isolated, that
// opening as a wrong key type or with a foreign signature in any one of the three
// files is rejected and leaves every file byte-for-byte unchanged, and that two
// runs give byte-identical files.
mod seed_p3d {
    use abyssiniandb::filedb::{FileBufSizeParam, FileDbParams, HashBucketsParam};
    use abyssiniandb::{DbMap, DbXxx, DbXxxBase};
    use std::collections::BTreeMap;
    use std::panic::{catch_unwind, AssertUnwindSafe};

    fn params(buckets: u64) -> FileDbParams {
        FileDbParams {
            buckets_size: HashBucketsParam::BucketsSize(buckets),
            ..Default::default()
        }
    }

    fn snapshot(dir: &str) -> BTreeMap<String, Vec<u8>> {
        let mut r = BTreeMap::new();
        for e in std::fs::read_dir(dir).unwrap() {
            let e = e.unwrap();
            r.insert(
                e.file_name().to_string_lossy().to_string(),
                std::fs::read(e.path()).unwrap(),
            );
        }
        r
    }

    fn rejected<T>(f: impl FnOnce() -> std::io::Result<T>) -> bool {
        let hook = std::panic::take_hook();
        std::panic::set_hook(Box::new(|_| {}));
        let r = catch_unwind(AssertUnwindSafe(f));
        std::panic::set_hook(hook);
        match r {
            Err(_) => true,
            Ok(Err(_)) => true,
            Ok(Ok(_)) => false,
        }
    }

    fn run(dir: &str) -> BTreeMap<String, Vec<u8>> {
        let _ = std::fs::remove_dir_all(dir);
        // create only + flush: a valid empty map made of three files.
        {
            let db = abyssiniandb::open_file(dir).unwrap();
            let mut e = db.db_map_string_with_params("empty", params(8)).unwrap();
            assert_eq!(e.len().unwrap(), 0);
            e.flush().unwrap();
            for ext in ["htx", "key", "val"] {
                let l = std::fs::metadata(format!("{dir}/empty.{ext}")).unwrap().len();
                assert!(l >= 128, "empty.{ext} has its header");
            }
            let copy = format!("{dir}.copy");
            let _ = std::fs::remove_dir_all(&copy);
            std::fs::create_dir_all(&copy).unwrap();
            for (n, b) in snapshot(dir) {
                std::fs::write(format!("{copy}/{n}"), b).unwrap();
            }
            let db2 = abyssiniandb::open_file(&copy).unwrap();
            let mut e2 = db2.db_map_string("empty").unwrap();
            assert!(e2.is_empty().unwrap());
            assert_eq!(e2.get("x").unwrap(), None);
            assert_eq!(e2.iter().count(), 0);
            drop(e2);
            drop(db2);
            let _ = std::fs::remove_dir_all(&copy);
        }
        // maps of every key type side by side.
        {
            let db = abyssiniandb::open_file(dir).unwrap();
            let mut s = db.db_map_string_with_params("s", params(2)).unwrap();
            let mut b = db.db_map_bytes_with_params("b", params(1)).unwrap();
            let mut i = db.db_map_i64_with_params("i", params(16)).unwrap();
            let mut u = db.db_map_u64_with_params("u", params(4)).unwrap();
            let mut v = db.db_map_vu64_with_params("v", params(32)).unwrap();
            for n in 0..40u64 {
                s.put_string(format!("k{n}").as_str(), &format!("s{n}")).unwrap();
                b.put(format!("k{n}").as_bytes(), format!("b{n}").as_bytes()).unwrap();
                i.put(&(n as i64 - 20), format!("i{n}").as_bytes()).unwrap();
                u.put(&n, format!("u{n}").as_bytes()).unwrap();
                v.put(&(n * 1000), format!("v{n}").as_bytes()).unwrap();
            }
            // same name, other handle: the same state.
            let mut s2 = db.db_map_string("s").unwrap();
            assert_eq!(s2.get_string("k7").unwrap(), Some("s7".to_string()));
            s2.put_string("k7", "changed").unwrap();
            assert_eq!(s.get_string("k7").unwrap(), Some("changed".to_string()));
            assert_eq!(b.get(b"k7".as_slice()).unwrap(), Some(b"b7".to_vec()));
            db.sync_all().unwrap();
        }
        // reopen with other parameters: the stored ones win, contents are the same.
        {
            let db = abyssiniandb::open_file(dir).unwrap();
            let other = FileDbParams {
                buckets_size: HashBucketsParam::BucketsSize(1024),
                key_buf_size: FileBufSizeParam::Size(1),
                val_buf_size: FileBufSizeParam::Size(1),
                htx_buf_size: FileBufSizeParam::Size(1),
                ..Default::default()
            };
            let before = snapshot(dir);
            let mut s = db.db_map_string_with_params("s", other.clone()).unwrap();
            let mut u = db.db_map_u64_with_params("u", other.clone()).unwrap();
            let mut i = db.db_map_i64_with_params("i", other.clone()).unwrap();
            let mut v = db.db_map_vu64_with_params("v", other).unwrap();
            assert_eq!(s.len().unwrap(), 40);
            assert_eq!(s.get_string("k7").unwrap(), Some("changed".to_string()));
            for n in 0..40u64 {
                assert_eq!(u.get(&n).unwrap(), Some(format!("u{n}").into_bytes()));
                assert_eq!(i.get(&(n as i64 - 20)).unwrap(), Some(format!("i{n}").into_bytes()));
                assert_eq!(v.get(&(n * 1000)).unwrap(), Some(format!("v{n}").into_bytes()));
            }
            assert_eq!(u.iter().count(), 40);
            s.flush().unwrap();
            u.sync_data().unwrap();
            drop((s, u, i, v, db));
            assert!(snapshot(dir) == before, "open + read-only calls changed a file");
        }
        // wrong key type: rejected, nothing changes.
        {
            let before = snapshot(dir);
            assert!(rejected(|| abyssiniandb::open_file(dir).unwrap().db_map_u64("s")));
            assert!(rejected(|| abyssiniandb::open_file(dir).unwrap().db_map_string("u")));
            assert!(rejected(|| abyssiniandb::open_file(dir).unwrap().db_map_bytes("s")));
            assert!(rejected(|| abyssiniandb::open_file(dir).unwrap().db_map_i64("v")));
            assert!(snapshot(dir) == before, "a rejected open changed a file");
        }
        // foreign signature in any single file: rejected, nothing changes.
        for ext in ["key", "val", "htx"] {
            let path = format!("{dir}/u.{ext}");
            let good = std::fs::read(&path).unwrap();
            let mut bad = good.clone();
            bad[..8].copy_from_slice(b"NOTABYS\0");
            std::fs::write(&path, &bad).unwrap();
            let before = snapshot(dir);
            assert!(rejected(|| abyssiniandb::open_file(dir).unwrap().db_map_u64("u")));
            assert!(snapshot(dir) == before, "a rejected open changed a file");
            std::fs::write(&path, &good).unwrap();
        }
        {
            let db = abyssiniandb::open_file(dir).unwrap();
            let mut u = db.db_map_u64("u").unwrap();
            assert_eq!(u.len().unwrap(), 40);
            assert_eq!(u.get(&39).unwrap(), Some(b"u39".to_vec()));
        }
        snapshot(dir)
    }

    #[test]
    fn open_create_reopen_reject_and_determinism() {
        let f1 = run("target/tmp/seed_p3d/run1.abyssiniandb");
        let f2 = run("target/tmp/seed_p3d/run2.abyssiniandb");
        assert_eq!(f1.len(), 6 * 3);
        assert!(f1 == f2, "same history must give byte-identical files");
    }
}
