// P1c: the iterators yield the entries of one bucket chain from the tail to the head
// (the chain is loaded when its bucket is entered). Only the order changes.
mod seed_p1c {
    use abyssiniandb::filedb::{FileDbMapDbBytes, FileDbParams, HashBucketsParam};
    use abyssiniandb::{DbMap, DbXxx, DbXxxBase};
    use std::collections::BTreeMap;

    type Model = BTreeMap<Vec<u8>, Vec<u8>>;

    fn read_dir_bytes(dir: &str) -> BTreeMap<String, Vec<u8>> {
        let mut r = BTreeMap::new();
        for e in std::fs::read_dir(dir).unwrap() {
            let e = e.unwrap();
            r.insert(
                e.file_name().to_str().unwrap().to_string(),
                std::fs::read(e.path()).unwrap(),
            );
        }
        r
    }
    // drives an iterator by hand: exact size_hint before every step, None for ever after the end.
    fn drain<I: Iterator>(mut it: I, expect_len: usize) -> Vec<I::Item> {
        let mut out = Vec::new();
        loop {
            let remain = expect_len - out.len();
            assert_eq!(it.size_hint(), (remain, Some(remain)));
            match it.next() {
                Some(x) => out.push(x),
                None => break,
            }
        }
        assert_eq!(out.len(), expect_len);
        for _ in 0..3 {
            assert!(it.next().is_none());
            assert_eq!(it.size_hint(), (0, Some(0)));
        }
        out
    }
    fn check_all_iterators(m: &mut FileDbMapDbBytes, model: &Model) {
        let n = model.len();
        assert_eq!(m.len().unwrap(), n as u64);
        assert_eq!(m.is_empty().unwrap(), n == 0);
        //
        let got: Vec<(Vec<u8>, Vec<u8>)> = drain(m.iter(), n)
            .into_iter()
            .map(|(k, v)| (k.to_vec(), v))
            .collect();
        let as_map: Model = got.iter().cloned().collect();
        assert_eq!(got.len(), as_map.len(), "a key was yielded twice");
        assert_eq!(&as_map, model);
        //
        let got: Model = drain(m.iter_mut(), n)
            .into_iter()
            .map(|(k, v)| (k.to_vec(), v))
            .collect();
        assert_eq!(&got, model);
        //
        let mut keys: Vec<Vec<u8>> = drain(m.keys(), n).into_iter().map(|k| k.to_vec()).collect();
        keys.sort();
        assert_eq!(keys, model.keys().cloned().collect::<Vec<_>>());
        //
        let mut values: Vec<Vec<u8>> = drain(m.values(), n);
        values.sort();
        let mut expect: Vec<Vec<u8>> = model.values().cloned().collect();
        expect.sort();
        assert_eq!(values, expect);
        //
        let got: Model = drain((&*m).into_iter(), n)
            .into_iter()
            .map(|(k, v)| (k.to_vec(), v))
            .collect();
        assert_eq!(&got, model);
        let got: Model = drain(m.clone().into_iter(), n)
            .into_iter()
            .map(|(k, v)| (k.to_vec(), v))
            .collect();
        assert_eq!(&got, model);
    }

    fn run(buckets: u64) {
        let db_name = format!("target/tmp/seed_p1c_{buckets}.abyssiniandb");
        let _ = std::fs::remove_dir_all(&db_name);
        let params = FileDbParams {
            buckets_size: HashBucketsParam::BucketsSize(buckets),
            ..Default::default()
        };
        let mut model = Model::new();
        {
            let db = abyssiniandb::open_file(&db_name).unwrap();
            let mut m = db.db_map_bytes_with_params("m", params).unwrap();
            check_all_iterators(&mut m, &model);
            for i in 0..200u32 {
                let k = format!("k{}", i * 37 % 211).into_bytes();
                let v = vec![i as u8; (i as usize * 31) % 700];
                m.put(k.as_slice(), &v).unwrap();
                model.insert(k, v);
                if i % 3 == 2 {
                    // delete from the middle / head / tail of chains
                    let k = format!("k{}", (i / 2) * 37 % 211).into_bytes();
                    assert_eq!(m.delete(k.as_slice()).unwrap(), model.remove(&k));
                }
                if i % 50 == 1 || i < 4 {
                    check_all_iterators(&mut m, &model);
                }
            }
            // the empty key and the empty value are entries too.
            m.put(b"".as_slice(), b"").unwrap();
            model.insert(Vec::new(), Vec::new());
            check_all_iterators(&mut m, &model);
            // iteration is read-only: files unchanged after a flush.
            m.flush().unwrap();
            let before = read_dir_bytes(&db_name);
            check_all_iterators(&mut m, &model);
            m.flush().unwrap();
            assert_eq!(before, read_dir_bytes(&db_name));
        }
        {
            let db = abyssiniandb::open_file(&db_name).unwrap();
            let mut m = db.db_map_bytes("m").unwrap();
            check_all_iterators(&mut m, &model);
            // empty it again
            for k in model.keys() {
                assert!(m.delete(k.as_slice()).unwrap().is_some());
            }
            check_all_iterators(&mut m, &Model::new());
        }
    }

    #[test]
    fn iterators_yield_each_entry_once_1_bucket() {
        run(1);
    }
    #[test]
    fn iterators_yield_each_entry_once_8_buckets() {
        run(8);
    }
    #[test]
    fn iterators_yield_each_entry_once_1024_buckets() {
        run(1024);
    }
}
