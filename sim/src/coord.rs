//! Coordinator: forks workers, watches them (crash / CPU-budget kill = violation with the
//! index in flight), aggregates evidence, minimises and writes replay files, applies the
//! known-findings list, prints the VIOLATION / KNOWN-FINDING lines and decides the exit code.

use crate::ops::*;
use crate::profiles::{self, Tier};
use crate::worker::{sample_of, Status};
use serde_json::{json, Value};
use std::collections::{BTreeMap, BTreeSet, HashSet};
use std::io::{BufRead, BufReader};
use std::process::{Command, Stdio};
use std::sync::mpsc;
use std::time::{Duration, Instant};

pub const VERIF_DIR: &str = "/verif";

/// directory that holds golden/, known-findings.txt, evidence/, replays/: ABYSIM_VERIF_DIR, else
/// the checkout this binary was built in (<verif>/sim/target*/...), else /verif
pub fn verif_dir() -> String {
    if let Ok(v) = std::env::var("ABYSIM_VERIF_DIR") {
        return v;
    }
    if let Ok(me) = std::env::current_exe() {
        let s = me.to_string_lossy().to_string();
        if let Some(i) = s.find("/sim/target") {
            let cand = &s[..i];
            if std::path::Path::new(&format!("{cand}/properties.jsonl")).exists() {
                return cand.to_string();
            }
        }
    }
    VERIF_DIR.to_string()
}

fn tmp_base() -> String {
    std::env::var("ABYSIM_TMP").unwrap_or_else(|_| "/tmp".to_string())
}

static EXEC_EXE: std::sync::Mutex<Option<String>> = std::sync::Mutex::new(None);

pub fn set_exec_exe(e: Option<String>) {
    *EXEC_EXE.lock().unwrap() = e;
}

pub fn exec_exe() -> std::path::PathBuf {
    match EXEC_EXE.lock().unwrap().clone() {
        Some(e) => std::path::PathBuf::from(e),
        None => std::env::current_exe().unwrap(),
    }
}

/// path of the debug-assertions flavour of this binary, if it has been built
pub fn dbg_exe() -> Option<String> {
    let me = std::env::current_exe().ok()?;
    let s = me.to_string_lossy().to_string();
    if s.contains("/dbg/") {
        return Some(s);
    }
    let d = s.replace("/release/", "/dbg/");
    if d != s && std::path::Path::new(&d).exists() {
        Some(d)
    } else {
        None
    }
}

pub const ALT_FLAVOURS: [&str; 5] = ["alt_rem_half", "alt_no_pin_zero", "alt_no_hash_turbo", "alt_lfu", "alt_lru"];

/// binary of the harness built against an alternative cargo feature set of the crate
pub fn alt_exe(name: &str) -> Option<String> {
    let me = std::env::current_exe().ok()?;
    let s = me.to_string_lossy().to_string();
    let idx = s.find("/target")?;
    let p = format!("{}/target-alt/bin/abysim-{}", &s[..idx], name);
    if std::path::Path::new(&p).exists() {
        Some(p)
    } else {
        None
    }
}

pub fn flavour_exe(flavour: &str) -> Option<String> {
    match flavour {
        "" => None,
        "dbg" => dbg_exe(),
        other => alt_exe(other),
    }
}

pub struct ExecResult {
    pub violation: Option<Violation>,
    pub inconclusive: Option<String>,
    pub trace_hash: u64,
    pub result_hash: u64,
    pub raw: Value,
}

/// run one explicit episode in a child process (survives crashes and hangs)
pub fn exec_episode(ep: &Episode, cpu_budget: u64) -> ExecResult {
    let path = format!("{}/abysim.ep.{}.{}.json", tmp_base(), std::process::id(), crate::rng::mix(&[ep.seed, ep.steps.len() as u64]));
    std::fs::write(&path, serde_json::to_string(ep).unwrap()).expect("write episode");
    let r = exec_file_p(&path, cpu_budget, ep.steps.len() as u32, &ep.profile);
    let _ = std::fs::remove_file(&path);
    r
}

pub fn exec_file(path: &str, cpu_budget: u64, nsteps: u32) -> ExecResult {
    exec_file_p(path, cpu_budget, nsteps, "")
}

pub fn exec_file_p(path: &str, cpu_budget: u64, nsteps: u32, profile: &str) -> ExecResult {
    let exe = exec_exe();
    let out = Command::new(exe).arg("exec").arg(path).arg(cpu_budget.to_string()).stdin(Stdio::null()).stderr(Stdio::null()).output().expect("spawn exec child");
    let text = String::from_utf8_lossy(&out.stdout).to_string();
    let mut root = None;
    let mut outcome: Option<Value> = None;
    for l in text.lines() {
        if let Ok(v) = serde_json::from_str::<Value>(l) {
            match v["t"].as_str() {
                Some("root") => root = v["root"].as_str().map(|s| s.to_string()),
                Some("outcome") => outcome = Some(v),
                _ => {}
            }
        }
    }
    if let Some(o) = outcome {
        let violation = serde_json::from_value::<Option<Violation>>(o["violation"].clone()).unwrap_or(None);
        return ExecResult {
            violation,
            inconclusive: o["inconclusive"].as_str().map(|s| s.to_string()),
            trace_hash: o["trace_hash"].as_u64().unwrap_or(0),
            result_hash: o["result_hash"].as_u64().unwrap_or(0),
            raw: o,
        };
    }
    // the child died
    if let Some(r) = root {
        let _ = std::fs::remove_dir_all(r);
    }
    use std::os::unix::process::ExitStatusExt;
    let sig = out.status.signal().unwrap_or(0);
    let (class, what) = death_class(sig, out.status.code());
    ExecResult {
        violation: Some(Violation { class: class.to_string(), signature: format!("{class}:{what}@{profile}"), step: nsteps, detail: format!("the process executing the episode died: {what}") }),
        inconclusive: None,
        trace_hash: 0,
        result_hash: 0,
        raw: Value::Null,
    }
}

pub fn death_class(sig: i32, code: Option<i32>) -> (&'static str, String) {
    if sig == libc::SIGPROF || sig == libc::SIGXCPU {
        ("hang", "cpu-budget-exceeded".to_string())
    } else if sig == libc::SIGSEGV || sig == libc::SIGBUS {
        ("crash", "stack-overflow-or-segv".to_string())
    } else if sig == libc::SIGABRT {
        ("crash", "abort".to_string())
    } else if sig != 0 {
        ("crash", format!("signal-{sig}"))
    } else {
        ("crash", format!("exit-{}", code.unwrap_or(-1)))
    }
}

// ---------------- known findings ----------------

#[derive(Clone, Debug)]
pub struct Finding {
    pub property: String,
    pub sig: String,
    pub text: String,
}

pub fn load_findings() -> Vec<Finding> {
    let p = format!("{}/known-findings.txt", verif_dir());
    let mut v = Vec::new();
    if let Ok(t) = std::fs::read_to_string(p) {
        for l in t.lines() {
            let l = l.trim();
            if let Some(rest) = l.strip_prefix("finding:") {
                let mut prop = String::new();
                let mut sig = String::new();
                let mut words = Vec::new();
                for w in rest.split_whitespace() {
                    if let Some(x) = w.strip_prefix("property=") {
                        prop = x.to_string();
                    } else if let Some(x) = w.strip_prefix("sig=") {
                        sig = x.to_string();
                    } else {
                        words.push(w);
                    }
                }
                if !prop.is_empty() && !sig.is_empty() {
                    v.push(Finding { property: prop, sig, text: words.join(" ") });
                }
            }
        }
    }
    v
}

// ---------------- minimisation ----------------

fn same_sig(r: &ExecResult, sig: &str) -> bool {
    let sig = match sig.rfind('+') {
        Some(p) if sig[p + 1..].starts_with("dbg") || sig[p + 1..].starts_with("alt_") => &sig[..p],
        _ => sig,
    };
    r.violation.as_ref().map(|v| v.signature == sig).unwrap_or(false)
}

/// delta debugging over the step list and the fault directives
pub fn minimise(ep: &Episode, sig: &str, cpu_budget: u64, max_execs: usize, deadline: Instant) -> (Episode, usize) {
    let mut best = ep.clone();
    let mut execs = 0usize;
    let mut try_ep = |cand: &Episode, execs: &mut usize| -> bool {
        if *execs >= max_execs || Instant::now() > deadline {
            return false;
        }
        *execs += 1;
        same_sig(&exec_episode(cand, cpu_budget), sig)
    };
    // 1. truncate after the failing step is implicit: drop trailing blocks first
    let mut chunk = (best.steps.len() / 2).max(1);
    while chunk >= 1 && !best.steps.is_empty() {
        let mut i = 0;
        let mut progress = false;
        while i < best.steps.len() {
            let hi = (i + chunk).min(best.steps.len());
            let mut cand = best.clone();
            let removed: Vec<usize> = (i..hi).collect();
            cand.steps.drain(i..hi);
            // fault directives are keyed by step index: shift / drop accordingly
            cand.faults = best
                .faults
                .iter()
                .filter(|d| !removed.contains(&(d.step as usize)))
                .map(|d| {
                    let mut d = d.clone();
                    if d.step as usize >= hi {
                        d.step -= (hi - i) as u32;
                    }
                    d
                })
                .collect();
            if try_ep(&cand, &mut execs) {
                best = cand;
                progress = true;
            } else {
                i = hi;
            }
            if execs >= max_execs || Instant::now() > deadline {
                return (best, execs);
            }
        }
        if chunk == 1 && !progress {
            break;
        }
        chunk = if chunk == 1 { if progress { 1 } else { 0 } } else { chunk / 2 };
        if chunk == 0 {
            break;
        }
    }
    // 2. drop fault directives and buggify
    let mut k = 0;
    while k < best.faults.len() {
        let mut cand = best.clone();
        cand.faults.remove(k);
        if try_ep(&cand, &mut execs) {
            best = cand;
        } else {
            k += 1;
        }
    }
    if best.buggify.is_some() {
        let mut cand = best.clone();
        cand.buggify = None;
        if try_ep(&cand, &mut execs) {
            best = cand;
        }
    }
    // 3. simplify steps: bulk -> nothing smaller here; shrink values
    for i in 0..best.steps.len() {
        if let Step::Put { h, k, v, mode } = &best.steps[i] {
            let n = v.len();
            for smaller in [0usize, 1, n / 2] {
                if smaller < n {
                    let mut cand = best.clone();
                    cand.steps[i] = Step::Put { h: *h, k: k.clone(), v: Val::G { len: smaller as u32, tag: i as u64 }, mode: *mode };
                    if try_ep(&cand, &mut execs) {
                        best = cand;
                        break;
                    }
                }
            }
        }
        if execs >= max_execs || Instant::now() > deadline {
            break;
        }
    }
    // 4. simplest configuration that still fails
    for m in 0..best.maps.len() {
        for p in [Buf::PerMille(1000)] {
            let mut cand = best.clone();
            cand.maps[m].params.htx = p.clone();
            cand.maps[m].params.key = p.clone();
            cand.maps[m].params.val = p.clone();
            if cand != best && try_ep(&cand, &mut execs) {
                best = cand;
            }
        }
    }
    (best, execs)
}

// ---------------- the check ----------------

struct WorkerProc {
    child: std::process::Child,
    status: Status,
    status_path: String,
    start: u64,
    done: bool,
}

pub struct Found {
    pub index: u64,
    pub sub: u64,
    pub violation: Violation,
    pub episode: Option<Episode>,
}

fn spawn_worker(prop: &str, tier: Tier, seed: u64, start: u64, stride: u64, end: u64, cpu: u64, id: usize, tx: &mpsc::Sender<(usize, String)>) -> WorkerProc {
    let status_path = format!("{}/abysim.status.{}.{}", tmp_base(), std::process::id(), id);
    let status = Status::open(&status_path, true);
    for s in 0..4 {
        status.set(s, 0);
    }
    let exe = exec_exe();
    let mut child = Command::new(exe)
        .arg("worker")
        .args([prop, tier.name(), &seed.to_string(), &start.to_string(), &stride.to_string(), &end.to_string(), &status_path, &cpu.to_string()])
        .stdin(Stdio::null())
        .stdout(Stdio::piped())
        .stderr(Stdio::null())
        .spawn()
        .expect("spawn worker");
    let out = child.stdout.take().unwrap();
    let tx = tx.clone();
    std::thread::spawn(move || {
        let rd = BufReader::with_capacity(1 << 20, out);
        for l in rd.lines() {
            match l {
                Ok(l) => {
                    if tx.send((id, l)).is_err() {
                        break;
                    }
                }
                Err(_) => break,
            }
        }
        let _ = tx.send((id, "EOF".to_string()));
    });
    WorkerProc { child, status, status_path, start, done: false }
}

pub struct CheckCfg {
    pub prop: String,
    pub tier: Tier,
    pub seed: u64,
    pub workers: usize,
    pub evaluations: u64,
    pub wall_cap: Duration,
    pub cpu_budget: u64,
    pub write_evidence: bool,
    pub quiet: bool,
    /// "" = release flavour; "dbg" = workers and exec children use the debug-assertions build
    pub flavour: String,
}

pub struct CheckResult {
    pub exit: i32,
    pub evidence: Value,
    pub found: Vec<Found>,
}

pub fn level_of(prop: &str) -> &'static str {
    match prop {
        "C03" | "C13" | "C16" => "fault_enumeration",
        _ => "exploration",
    }
}

/// remove scratch entries of harness processes that no longer exist (killed runs)
pub fn cleanup_stale() {
    let base = tmp_base();
    if let Ok(rd) = std::fs::read_dir(&base) {
        for e in rd.flatten() {
            let name = e.file_name().to_string_lossy().to_string();
            if !name.starts_with("abysim.") {
                continue;
            }
            // abysim.<tag>.<pid>[.<n>][.json] or abysim.<pid>
            let pid = name.split('.').skip(1).find_map(|p| p.parse::<u32>().ok());
            if let Some(pid) = pid {
                if !std::path::Path::new(&format!("/proc/{pid}")).exists() {
                    let p = e.path();
                    if p.is_dir() {
                        let _ = std::fs::remove_dir_all(&p);
                    } else {
                        let _ = std::fs::remove_file(&p);
                    }
                }
            }
        }
    }
}

pub fn run_check(cfg: &CheckCfg) -> CheckResult {
    cleanup_stale();
    set_exec_exe(flavour_exe(&cfg.flavour));
    let r = run_check_inner(cfg);
    set_exec_exe(None);
    r
}

fn run_check_inner(cfg: &CheckCfg) -> CheckResult {
    let t0 = Instant::now();
    let (tx, rx) = mpsc::channel::<(usize, String)>();
    let w = cfg.workers.max(1);
    let mut procs: Vec<WorkerProc> = (0..w)
        .map(|id| spawn_worker(&cfg.prop, cfg.tier, cfg.seed, id as u64, w as u64, cfg.evaluations, cfg.cpu_budget, id, &tx))
        .collect();
    let mut found: Vec<Found> = Vec::new();
    let mut tot: BTreeMap<String, u64> = BTreeMap::new();
    let mut kernel_calls = [0u64; crate::kernel::NOPS];
    let mut faults: BTreeMap<String, u64> = BTreeMap::new();
    let mut probes: BTreeMap<String, u64> = BTreeMap::new();
    let mut state_sigs: HashSet<u64> = HashSet::new();
    let mut inter_sigs: HashSet<u64> = HashSet::new();
    let mut case_sigs: HashSet<u64> = HashSet::new();
    let mut samples: Vec<Value> = Vec::new();
    let mut inconclusive_samples: Vec<String> = Vec::new();
    let mut eof = vec![false; w];
    let mut stopped_early = false;
    let mut respawns = 0;
    let mut harness_errors = 0u64;
    let mut episode_digest = 0u64;
    loop {
        match rx.recv_timeout(Duration::from_millis(100)) {
            Ok((id, line)) => {
                if line == "EOF" {
                    eof[id] = true;
                } else if let Ok(v) = serde_json::from_str::<Value>(&line) {
                    match v["t"].as_str() {
                        Some("s") => {
                            for k in ["evaluations", "episodes", "inconclusive", "violations", "api_calls", "steps", "crash_points", "crash_reopens", "decodes", "audits", "traversals", "bytes_written", "effective_updates"] {
                                *tot.entry(k.to_string()).or_insert(0) += v[k].as_u64().unwrap_or(0);
                            }
                            episode_digest = episode_digest.wrapping_add(v["episode_digest"].as_u64().unwrap_or(0));
                            if let Some(a) = v["kernel_calls"].as_array() {
                                for (i, x) in a.iter().enumerate().take(crate::kernel::NOPS) {
                                    kernel_calls[i] += x.as_u64().unwrap_or(0);
                                }
                            }
                            for (name, dst) in [("faults", &mut faults), ("probes", &mut probes)] {
                                if let Some(o) = v[name].as_object() {
                                    for (k, x) in o {
                                        *dst.entry(k.clone()).or_insert(0) += x.as_u64().unwrap_or(0);
                                    }
                                }
                            }
                            for (name, dst) in [("state_sigs", &mut state_sigs), ("inter_sigs", &mut inter_sigs), ("case_sigs", &mut case_sigs)] {
                                if let Some(a) = v[name].as_array() {
                                    for x in a {
                                        if let Some(u) = x.as_u64() {
                                            dst.insert(u);
                                        }
                                    }
                                }
                            }
                            if let Some(a) = v["inconclusive_samples"].as_array() {
                                for x in a {
                                    if inconclusive_samples.len() < 5 {
                                        inconclusive_samples.push(x.as_str().unwrap_or("").to_string());
                                    }
                                }
                            }
                        }
                        Some("sample") => {
                            if samples.len() < 4 {
                                samples.push(v["sample"].clone());
                            }
                        }
                        Some("v") => {
                            if let Ok(viol) = serde_json::from_value::<Violation>(v["violation"].clone()) {
                                let ep = serde_json::from_value::<Episode>(v["episode"].clone()).ok();
                                found.push(Found { index: v["index"].as_u64().unwrap_or(0), sub: v["sub"].as_u64().unwrap_or(0), violation: viol, episode: ep });
                            }
                        }
                        Some("done") => procs[id].done = true,
                        Some("harness-error") => {
                            eprintln!("harness: {}", v["what"].as_str().unwrap_or("?"));
                            harness_errors += 1;
                        }
                        _ => {}
                    }
                }
            }
            Err(mpsc::RecvTimeoutError::Timeout) => {}
            Err(_) => break,
        }
        // dead workers
        for id in 0..w {
            if procs[id].done && eof[id] {
                continue;
            }
            if let Ok(Some(st)) = procs[id].child.try_wait() {
                if !eof[id] {
                    continue; // drain its output first
                }
                if procs[id].done {
                    continue;
                }
                use std::os::unix::process::ExitStatusExt;
                let in_flight = procs[id].status.get(0);
                let sub = procs[id].status.get(1);
                let pid = procs[id].child.id();
                let _ = std::fs::remove_dir_all(format!("{}/abysim.w.{}", tmp_base(), pid));
                if in_flight == 0 {
                    // died outside a run: harness problem
                    eprintln!("harness: worker {id} died outside a run ({st:?})");
                    procs[id].done = true;
                    continue;
                }
                let index = in_flight - 1;
                let (class, what) = death_class(st.signal().unwrap_or(0), st.code());
                let profile = {
                    let fam = profiles::episodes(&cfg.prop, cfg.tier, cfg.seed, index);
                    fam.get(sub as usize).or(fam.first()).map(|e| e.profile.clone()).unwrap_or_default()
                };
                found.push(Found {
                    index,
                    sub,
                    violation: Violation { class: class.to_string(), signature: format!("{class}:{what}@{profile}"), step: u32::MAX, detail: format!("worker process died while executing run {index} (episode {sub} of its family): {what}") },
                    episode: None,
                });
                *tot.entry("evaluations".into()).or_insert(0) += 1;
                *tot.entry("violations".into()).or_insert(0) += 1;
                // continue after the fatal index
                let next = index + w as u64;
                eof[id] = false;
                respawns += 1;
                if next < cfg.evaluations && !stopped_early && respawns < 2000 {
                    let _ = std::fs::remove_file(&procs[id].status_path);
                    procs[id] = spawn_worker(&cfg.prop, cfg.tier, cfg.seed, next, w as u64, cfg.evaluations, cfg.cpu_budget, id, &tx);
                } else {
                    procs[id].done = true;
                    eof[id] = true;
                }
            }
        }
        // a flood of violations adds nothing: stop exploring once many were collected
        if !stopped_early && found.len() >= 150 {
            stopped_early = true;
            for p in procs.iter() {
                p.status.set(2, 1);
            }
        }
        if !stopped_early && t0.elapsed() > cfg.wall_cap {
            stopped_early = true;
            for p in procs.iter() {
                p.status.set(2, 1);
            }
        }
        if (0..w).all(|id| procs[id].done && eof[id]) {
            break;
        }
        if t0.elapsed() > cfg.wall_cap + Duration::from_secs(cfg.cpu_budget + 30) {
            for p in procs.iter_mut() {
                let _ = p.child.kill();
            }
            eprintln!("harness: workers did not stop after the wall-clock cap");
            break;
        }
    }
    for p in procs.iter_mut() {
        let _ = p.child.wait();
        let _ = std::fs::remove_file(&p.status_path);
        let _ = std::fs::remove_dir_all(format!("{}/abysim.w.{}", tmp_base(), p.child.id()));
        let _ = p.start;
    }
    let explore_wall = t0.elapsed().as_secs_f64();

    // ---------------- triage of violations ----------------
    let findings = load_findings();
    found.sort_by(|a, b| (a.index, a.sub).cmp(&(b.index, b.sub)));
    let mut by_sig: BTreeMap<String, Vec<usize>> = BTreeMap::new();
    if !cfg.flavour.is_empty() {
        for f in found.iter_mut() {
            f.violation.signature = format!("{}+{}", f.violation.signature, cfg.flavour);
        }
    }
    for (i, f) in found.iter().enumerate() {
        by_sig.entry(f.violation.signature.clone()).or_default().push(i);
    }
    let mut exit = 0;
    let mut known_lines = BTreeSet::new();
    let mut violation_lines = Vec::new();
    let mut reported = 0;
    let mut unreproduced = 0u64;
    let replay_dir = format!("{}/replays", verif_dir());
    let t_min = Instant::now();
    for (sig, idxs) in by_sig.iter() {
        // a finding is keyed on the violation signature without the build-flavour suffix
        let base_sig = match sig.rfind('+') {
            Some(p) if sig[p + 1..].starts_with("dbg") || sig[p + 1..].starts_with("alt_") => &sig[..p],
            _ => sig.as_str(),
        };
        if let Some(k) = findings.iter().find(|k| k.property == cfg.prop && k.sig == base_sig) {
            known_lines.insert(format!("KNOWN-FINDING: property={} sig={} {} [{} runs]", cfg.prop, k.sig, k.text, idxs.len()));
            continue;
        }
        if reported >= 4 {
            exit = 1;
            violation_lines.push(format!("(further signature not minimised: {sig}, {} runs, first index {})", idxs.len(), found[idxs[0]].index));
            continue;
        }
        reported += 1;
        let f = &found[idxs[0]];
        // the explicit episode: sent by the worker, or regenerated for crashes / hangs
        let ep = match &f.episode {
            Some(e) => Some(e.clone()),
            None => {
                let fam = profiles::episodes(&cfg.prop, cfg.tier, cfg.seed, f.index);
                fam.get(f.sub as usize).cloned().or_else(|| fam.first().cloned())
            }
        };
        let _ = std::fs::create_dir_all(&replay_dir);
        let path = format!("{}/{}-{}-{}-{}.json", replay_dir, cfg.prop, cfg.seed, f.index, f.sub);
        match ep {
            None => {
                violation_lines.push(format!("VIOLATION property={} replay=<none: episode could not be regenerated> sig={}", cfg.prop, sig));
            }
            Some(ep) => {
                let orig_steps = ep.steps.len();
                // confirm in a fresh process, then minimise
                let first = exec_episode(&ep, cfg.cpu_budget);
                let (min_ep, viol, minimised) = if same_sig(&first, sig) {
                    let deadline = Instant::now() + Duration::from_secs(if cfg.tier == Tier::Quick { 25 } else { 90 });
                    let (m, _n) = minimise(&ep, sig, cfg.cpu_budget, 400, deadline);
                    let again = exec_episode(&m, cfg.cpu_budget);
                    if same_sig(&again, sig) {
                        (m, again.violation.unwrap(), true)
                    } else {
                        (ep.clone(), first.violation.unwrap(), false)
                    }
                } else {
                    // a violation that a fresh process does not reproduce is not reported as one:
                    // replaying a replay file must reproduce the violation exactly
                    eprintln!("harness: violation {sig} of run {} did not reproduce in a fresh process (got {:?}); not reported", f.index, first.violation.as_ref().map(|v| &v.signature));
                    unreproduced += 1;
                    continue;
                };
                let mut viol = viol;
                if !cfg.flavour.is_empty() && !viol.signature.ends_with(&format!("+{}", cfg.flavour)) {
                    viol.signature = format!("{}+{}", viol.signature, cfg.flavour);
                    viol.detail = format!("[build flavour {}] {}", cfg.flavour, viol.detail);
                }
                let rf = ReplayFile { property: cfg.prop.clone(), tier: cfg.tier.name().to_string(), base_seed: cfg.seed, run_index: f.index, episode: min_ep, violation: viol.clone(), minimised, original_steps: orig_steps, flavour: cfg.flavour.clone() };
                std::fs::write(&path, serde_json::to_string_pretty(&rf).unwrap()).expect("write replay file");
                violation_lines.push(format!("VIOLATION property={} replay={} sig={} runs={} detail={}", cfg.prop, path, sig, idxs.len(), viol.detail));
            }
        }
    }
    let _ = t_min;

    let evaluations = tot.get("evaluations").copied().unwrap_or(0);
    let episodes = tot.get("episodes").copied().unwrap_or(0);
    let inconclusive = tot.get("inconclusive").copied().unwrap_or(0);
    let wall = t0.elapsed().as_secs_f64();
    let kc: BTreeMap<&str, u64> = crate::kernel::KOP_NAMES.iter().zip(kernel_calls.iter()).map(|(n, c)| (*n, *c)).collect();
    let unlisted = violation_lines.iter().filter(|l| l.starts_with("VIOLATION")).count();
    // fault kinds that are not kernel return values: counted from the probes they leave
    let mut faults = faults;
    for (name, src) in [
        ("crash@sync (kill image taken)", tot.get("crash_points").copied().unwrap_or(0)),
        ("powerloss@sync (durable image checked)", probes.get("powerloss-image-checked").copied().unwrap_or(0)),
        ("real process SIGKILLed at sync point", probes.get("kill-twin-compared").copied().unwrap_or(0)),
        ("stored byte flipped", probes.get("byte-corrupted").copied().unwrap_or(0)),
        ("file of another map swapped in", probes.get("file-swapped").copied().unwrap_or(0)),
        ("stored file cut short (shorter than its header)", probes.get("file-truncated").copied().unwrap_or(0)),
        ("run repeated with poisoned allocator / other process", probes.get("twice-compared").copied().unwrap_or(0)),
        ("close + reopen in a fresh process (real kernel)", probes.get("reopen-in-fresh-process").copied().unwrap_or(0)),
    ] {
        if src > 0 {
            faults.insert(name.to_string(), src);
        }
    }
    let evidence = json!({
        "property_id": cfg.prop,
        "tier": cfg.tier.name(),
        "seed": cfg.seed,
        "level": level_of(&cfg.prop),
        "coverage": {
            "evaluations": evaluations,
            "distinct_nontrivial": case_sigs.len(),
            "rule": profiles::rule_text(&cfg.prop),
            "samples": samples,
            "episodes_executed": episodes,
            "planned_evaluations": cfg.evaluations,
            "stopped_by_wall_cap": stopped_early,
            "inconclusive_runs": inconclusive,
            "inconclusive_samples": inconclusive_samples,
            "api_calls": tot.get("api_calls").copied().unwrap_or(0),
            "logical_steps": tot.get("steps").copied().unwrap_or(0),
            "simulated_time": "not applicable: the system has no clock or timer; progress is counted in logical steps (API calls) and kernel calls",
            "effective_updates": tot.get("effective_updates").copied().unwrap_or(0),
            "kernel_calls": kc,
            "bytes_written_to_simulated_disk": tot.get("bytes_written").copied().unwrap_or(0),
            "faults_fired": faults,
            "probes": probes,
            "crash_points_checked": tot.get("crash_points").copied().unwrap_or(0),
            "crash_images_reopened_by_real_code": tot.get("crash_reopens").copied().unwrap_or(0),
            "images_decoded": tot.get("decodes").copied().unwrap_or(0),
            "full_audits": tot.get("audits").copied().unwrap_or(0),
            "traversals": tot.get("traversals").copied().unwrap_or(0),
            "distinct_states": state_sigs.len(),
            "distinct_interleavings": inter_sigs.len(),
            "distinct_states_measure": "64-bit shape signatures: of every decoded image (table size, chain-length histogram, live and free slots per size class, offset-width class of both record files) and of the logical end state of every map (entry count, multiset of key length / value slot class)",
            "distinct_interleavings_measure": "hash of the sequence of handle ids (logical clients) that acted, per episode",
            "episode_digest": episode_digest,
            "runs_per_hour": if explore_wall > 0.0 { (episodes as f64 / explore_wall * 3600.0) as u64 } else { 0 },
            "workers": w,
            "components": {
                "real": ["abyssiniandb (path /repo, release profile)", "rabuf 0.1.20", "vu64 0.1.11", "std::fs::File / OpenOptions / io::{Read,Write,Seek}"],
                "stub": ["kernel file layer for regular files below the simulation root (open/read/write/lseek/ftruncate/fsync/fdatasync/close)"],
            },
            "violation_signatures": by_sig.iter().map(|(s, v)| (s.clone(), v.len())).collect::<BTreeMap<_, _>>(),
            "known_findings_matched": known_lines.len(),
            "exhaustive": cfg.prop == "C13" && !stopped_early && evaluations >= profiles::c13_cases().len() as u64,
        },
        "assumptions": [
            "the simulated kernel implements POSIX semantics for the eight calls used (checked by the twin run against the real kernel, abysim selftest twin)",
            "a process kill leaves exactly the bytes the kernel accepted; a power loss leaves the bytes of the last successful fsync/fdatasync",
            "seeded sampling: a clean batch is evidence, not proof",
        ],
        "wall_s": wall,
        "violations": unlisted,
    });
    if !cfg.quiet {
        for l in &known_lines {
            println!("{l}");
        }
        for l in &violation_lines {
            println!("{l}");
        }
    }
    if inconclusive * 2 > episodes.max(1) {
        eprintln!("harness: more than half of the runs were inconclusive ({inconclusive}/{episodes}); e.g. {:?}", inconclusive_samples.first());
        if exit == 0 {
            exit = 2;
        }
    }
    if evaluations == 0 {
        eprintln!("harness: no evaluation completed");
        exit = 2;
    }
    if harness_errors > 0 && exit == 0 {
        exit = 2;
    }
    if violation_lines.iter().any(|l| l.starts_with("VIOLATION")) {
        exit = 1;
    } else if unreproduced > 0 && exit == 0 {
        // only unreproducible signatures were seen: a harness problem, not a property violation
        exit = 2;
    }
    let _ = sample_of;
    CheckResult { exit, evidence, found }
}

pub fn write_evidence(prop: &str, ev: &Value) {
    let dir = format!("{}/evidence", verif_dir());
    let _ = std::fs::create_dir_all(&dir);
    std::fs::write(format!("{dir}/{prop}.json"), serde_json::to_string_pretty(ev).unwrap()).expect("write evidence");
}

/// `abysim replay <file>`
pub fn replay_main(path: &str) -> i32 {
    let text = match std::fs::read_to_string(path) {
        Ok(t) => t,
        Err(e) => {
            eprintln!("harness: cannot read {path}: {e}");
            return 2;
        }
    };
    let rf: ReplayFile = match serde_json::from_str(&text) {
        Ok(r) => r,
        Err(e) => {
            eprintln!("harness: cannot parse {path}: {e}");
            return 2;
        }
    };
    if !rf.flavour.is_empty() {
        match flavour_exe(&rf.flavour) {
            Some(e) => set_exec_exe(Some(e)),
            None => {
                eprintln!("harness: the build flavour {} of the harness is not built (see ./check)", rf.flavour);
                return 2;
            }
        }
    }
    let mut r = exec_file_p(path, 120, rf.episode.steps.len() as u32, &rf.episode.profile);
    if !rf.flavour.is_empty() {
        if let Some(v) = r.violation.as_mut() {
            v.signature = format!("{}+{}", v.signature, rf.flavour);
        }
    }
    match &r.violation {
        Some(v) if v.signature == rf.violation.signature => {
            let known = load_findings().iter().any(|k| k.property == rf.property && k.sig == v.signature);
            if known {
                println!("KNOWN-FINDING: property={} sig={} (replay of {})", rf.property, v.signature, path);
                0
            } else {
                println!("VIOLATION property={} replay={} sig={} detail={}", rf.property, path, v.signature, v.detail);
                1
            }
        }
        other => {
            println!("replay of {path} did not reproduce {}: got {:?}", rf.violation.signature, other.as_ref().map(|v| &v.signature));
            // not reproducing on the current tree means the property holds for this replay
            0
        }
    }
}
