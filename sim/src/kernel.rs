//! Simulated kernel under the unmodified code: the harness binary defines the libc symbols
//! std::fs::File ends up calling.  Regular files below the simulation root live in memory
//! (`written` = what the kernel accepted, `durable` = what the last fsync/fdatasync made
//! stable); everything else is forwarded with a raw syscall.
//!
//! Single-threaded by construction: only the worker's main thread ever touches simulated
//! descriptors (the crate under test is `Rc<RefCell>` based and not `Send`).

use crate::rng::Rng;
use libc::{c_char, c_int, c_long, c_void, mode_t, off_t, size_t, ssize_t};
use std::cell::UnsafeCell;
use std::collections::BTreeMap;
use std::rc::Rc;
use std::sync::atomic::{AtomicBool, Ordering};

pub const PAGE: usize = 4096;
pub type Page = [u8; PAGE];
pub const FAKE_FD_BASE: c_int = 1 << 20;

// ------------------------------------------------------------------------------------------
// sparse copy-on-write file image
// ------------------------------------------------------------------------------------------

#[derive(Clone, Default)]
pub struct Img {
    pub len: u64,
    pages: BTreeMap<u64, Rc<Page>>, // never holds an all-zero page (normal form)
}

impl PartialEq for Img {
    fn eq(&self, o: &Img) -> bool {
        if self.len != o.len || self.pages.len() != o.pages.len() {
            return false;
        }
        self.pages
            .iter()
            .zip(o.pages.iter())
            .all(|((i, a), (j, b))| i == j && (Rc::ptr_eq(a, b) || a[..] == b[..]))
    }
}

impl std::fmt::Debug for Img {
    fn fmt(&self, f: &mut std::fmt::Formatter<'_>) -> std::fmt::Result {
        write!(f, "Img(len={}, pages={})", self.len, self.pages.len())
    }
}

fn is_zero(p: &[u8]) -> bool {
    p.iter().all(|&b| b == 0)
}

impl Img {
    pub fn new() -> Img {
        Img::default()
    }
    pub fn from_bytes(b: &[u8]) -> Img {
        let mut i = Img::new();
        i.write_at(0, b);
        i
    }
    pub fn read_at(&self, off: u64, buf: &mut [u8]) -> usize {
        if off >= self.len {
            return 0;
        }
        let n = buf.len().min((self.len - off) as usize);
        let mut done = 0usize;
        while done < n {
            let pos = off + done as u64;
            let pi = pos / PAGE as u64;
            let po = (pos % PAGE as u64) as usize;
            let take = (PAGE - po).min(n - done);
            match self.pages.get(&pi) {
                Some(p) => buf[done..done + take].copy_from_slice(&p[po..po + take]),
                None => buf[done..done + take].fill(0),
            }
            done += take;
        }
        n
    }
    pub fn write_at(&mut self, off: u64, data: &[u8]) {
        let n = data.len();
        let mut done = 0usize;
        while done < n {
            let pos = off + done as u64;
            let pi = pos / PAGE as u64;
            let po = (pos % PAGE as u64) as usize;
            let take = (PAGE - po).min(n - done);
            let src = &data[done..done + take];
            let present = self.pages.contains_key(&pi);
            if !present {
                if !is_zero(src) {
                    let mut pg: Page = [0u8; PAGE];
                    pg[po..po + take].copy_from_slice(src);
                    self.pages.insert(pi, Rc::new(pg));
                }
            } else {
                let rc = self.pages.get_mut(&pi).unwrap();
                if rc[po..po + take] != *src {
                    let pg = Rc::make_mut(rc);
                    pg[po..po + take].copy_from_slice(src);
                    if is_zero(&pg[..]) {
                        self.pages.remove(&pi);
                    }
                }
            }
            done += take;
        }
        let end = off + n as u64;
        if end > self.len {
            self.len = end;
        }
    }
    pub fn set_len(&mut self, n: u64) {
        if n < self.len {
            let first_dead = (n + PAGE as u64 - 1) / PAGE as u64;
            let dead: Vec<u64> = self.pages.range(first_dead..).map(|(k, _)| *k).collect();
            for k in dead {
                self.pages.remove(&k);
            }
            let po = (n % PAGE as u64) as usize;
            if po != 0 {
                let pi = n / PAGE as u64;
                if let Some(rc) = self.pages.get_mut(&pi) {
                    if !is_zero(&rc[po..]) {
                        let pg = Rc::make_mut(rc);
                        pg[po..].fill(0);
                        if is_zero(&pg[..]) {
                            self.pages.remove(&pi);
                        }
                    }
                }
            }
        }
        self.len = n;
    }
    pub fn to_vec(&self) -> Vec<u8> {
        let mut v = vec![0u8; self.len as usize];
        for (pi, p) in &self.pages {
            let st = (*pi as usize) * PAGE;
            if st >= v.len() {
                break;
            }
            let n = PAGE.min(v.len() - st);
            v[st..st + n].copy_from_slice(&p[..n]);
        }
        v
    }
    pub fn get(&self, off: u64, n: usize) -> Vec<u8> {
        let mut v = vec![0u8; n];
        let got = self.read_at(off, &mut v);
        v.truncate(got);
        v
    }
    pub fn byte(&self, off: u64) -> Option<u8> {
        if off >= self.len {
            return None;
        }
        let pi = off / PAGE as u64;
        Some(self.pages.get(&pi).map(|p| p[(off % PAGE as u64) as usize]).unwrap_or(0))
    }
    pub fn u64_le(&self, off: u64) -> Option<u64> {
        if off + 8 > self.len {
            return None;
        }
        let mut b = [0u8; 8];
        self.read_at(off, &mut b);
        Some(u64::from_le_bytes(b))
    }
    pub fn digest(&self) -> u64 {
        let mut h = 0xcbf2_9ce4_8422_2325u64 ^ self.len;
        for (pi, p) in &self.pages {
            h = (h ^ pi).wrapping_mul(0x100_0000_01b3);
            for ch in p.chunks(8) {
                let mut b = [0u8; 8];
                b.copy_from_slice(ch);
                h = (h ^ u64::from_le_bytes(b)).wrapping_mul(0x100_0000_01b3);
                h ^= h >> 29;
            }
        }
        h
    }
    pub fn nonzero_pages(&self) -> impl Iterator<Item = (u64, &Page)> {
        self.pages.iter().map(|(k, v)| (*k, &**v))
    }
    pub fn page_count(&self) -> usize {
        self.pages.len()
    }
    /// first differing offset, for reports
    pub fn first_diff(&self, o: &Img) -> Option<u64> {
        if self == o {
            return None;
        }
        let n = self.len.min(o.len);
        let mut keys: Vec<u64> = self.pages.keys().chain(o.pages.keys()).copied().collect();
        keys.sort_unstable();
        keys.dedup();
        let zero = [0u8; PAGE];
        for k in keys {
            let a = self.pages.get(&k).map(|p| &p[..]).unwrap_or(&zero[..]);
            let b = o.pages.get(&k).map(|p| &p[..]).unwrap_or(&zero[..]);
            if a != b {
                for i in 0..PAGE {
                    let off = k * PAGE as u64 + i as u64;
                    if a[i] != b[i] && off < n {
                        return Some(off);
                    }
                }
            }
        }
        Some(n)
    }
}

// ------------------------------------------------------------------------------------------
// kernel state
// ------------------------------------------------------------------------------------------

#[derive(Clone, Copy, Debug, PartialEq, Eq, PartialOrd, Ord, serde::Serialize, serde::Deserialize)]
pub enum KOp {
    Open = 0,
    Read = 1,
    Write = 2,
    Lseek = 3,
    Ftruncate = 4,
    Fsync = 5,
    Fdatasync = 6,
    Close = 7,
}
pub const NOPS: usize = 8;
pub const KOP_NAMES: [&str; NOPS] =
    ["open", "read", "write", "lseek", "ftruncate", "fsync", "fdatasync", "close"];

#[derive(Clone, Debug)]
pub struct KEvent {
    pub seq: u64,
    pub op: KOp,
    pub ino: u32,
    pub off: u64,
    pub len: u64,
    pub ret: i64,
}

#[derive(Clone, Debug, PartialEq, serde::Serialize, serde::Deserialize)]
pub enum Action {
    /// fail with errno, nothing transferred
    Errno(i32),
    /// transfer at most n bytes (n>=1) and report that count (legal short transfer)
    Short(u64),
    /// transfer n bytes (short), the next write/ftruncate on the file fails with errno
    ShortThenErrno(u64, i32),
}

#[derive(Clone, Debug, PartialEq, serde::Serialize, serde::Deserialize)]
pub struct Directive {
    /// logical step (API call index) in which the directive is armed
    pub step: u32,
    pub op: KOp,
    /// n-th (0-based) kernel call of kind `op` on a matching file within that step
    pub nth: u32,
    /// path suffix the file must match ("" = any simulated file)
    pub file: String,
    pub action: Action,
    /// keep refusing writes/truncates on that file until `lift_faults`
    pub sticky: bool,
    #[serde(skip)]
    pub seen: u32,
    #[serde(skip)]
    pub fired: bool,
}

#[derive(Clone, Debug)]
pub struct Buggify {
    pub rng: Rng,
    /// per mille probabilities
    pub short_write: u32,
    pub short_read: u32,
    pub eintr: u32,
    /// which file kinds (.htx, .key, .val) are affected
    pub kinds: [bool; 3],
}

pub struct Inode {
    pub path: String,
    pub written: Img,
    pub durable: Img,
    pub ever_synced: bool,
    pub last_mod_seq: u64,
    pub last_sync_seq: u64,
    pub last_sync_op: Option<KOp>,
    pub refuse: Option<i32>,
    pub pending_errno: Option<(i32, bool)>,
    pub eintr_guard: [bool; NOPS],
}

struct Fd {
    ino: usize,
    pos: u64,
}

#[derive(Clone, Copy, PartialEq, Eq, Debug)]
pub enum Mode {
    Sim,
    /// paths below the root go to the real kernel but are traced like simulated ones
    Trace,
}

pub struct Kernel {
    pub mode: Mode,
    pub root: String,
    pub inodes: Vec<Inode>,
    names: BTreeMap<String, usize>,
    fds: Vec<Option<Fd>>,
    real_fds: BTreeMap<c_int, Fd>, // Trace mode
    pub seq: u64,
    pub trace_hash: u64,
    pub step: u32,
    pub step_events: Vec<KEvent>,
    pub counts: [u64; NOPS],
    pub log: Option<Vec<KEvent>>,
    pub directives: Vec<Directive>,
    pub caps: Vec<(String, u64)>,
    pub bug: Option<Buggify>,
    pub fired: BTreeMap<&'static str, u64>,
    pub bytes_written: u64,
    pub bytes_read: u64,
}

struct Global(UnsafeCell<Option<Box<Kernel>>>);
unsafe impl Sync for Global {}
static KERNEL: Global = Global(UnsafeCell::new(None));
static KERNEL_ON: AtomicBool = AtomicBool::new(false);
static HARNESS_IO: AtomicBool = AtomicBool::new(false);

/// file access of the harness itself (exporting / importing images) is neither simulated
/// nor traced
pub fn untraced<R>(f: impl FnOnce() -> R) -> R {
    let prev = HARNESS_IO.swap(true, Ordering::SeqCst);
    let r = f();
    HARNESS_IO.store(prev, Ordering::SeqCst);
    r
}

/// Access the installed kernel. Safety: single-threaded use only (see module doc).
pub fn with<R>(f: impl FnOnce(&mut Kernel) -> R) -> R {
    unsafe {
        let k = (*KERNEL.0.get()).as_mut().expect("kernel not installed");
        f(k)
    }
}

pub fn installed() -> bool {
    KERNEL_ON.load(Ordering::Relaxed)
}

pub fn install(root: &str, mode: Mode) {
    let k = Kernel {
        mode,
        root: root.to_string(),
        inodes: Vec::new(),
        names: BTreeMap::new(),
        fds: Vec::new(),
        real_fds: BTreeMap::new(),
        seq: 0,
        trace_hash: 0x1234_5678_9abc_def0,
        step: 0,
        step_events: Vec::new(),
        counts: [0; NOPS],
        log: None,
        directives: Vec::new(),
        caps: Vec::new(),
        bug: None,
        fired: BTreeMap::new(),
        bytes_written: 0,
        bytes_read: 0,
    };
    unsafe {
        *KERNEL.0.get() = Some(Box::new(k));
    }
    KERNEL_ON.store(true, Ordering::SeqCst);
}

/// soft RLIMIT_FSIZE of this process (None = unlimited); SIGXFSZ is ignored so that the
/// refused write returns EFBIG instead of killing the process
pub fn real_fsize_limit(cap: Option<u64>) {
    unsafe {
        libc::signal(libc::SIGXFSZ, libc::SIG_IGN);
        let mut rl = libc::rlimit { rlim_cur: 0, rlim_max: 0 };
        libc::getrlimit(libc::RLIMIT_FSIZE, &mut rl);
        rl.rlim_cur = match cap {
            Some(c) => c.min(rl.rlim_max),
            None => rl.rlim_max,
        };
        libc::setrlimit(libc::RLIMIT_FSIZE, &rl);
    }
}

pub fn uninstall() {
    if installed() && with(|k| k.mode == Mode::Trace && !k.caps.is_empty()) {
        real_fsize_limit(None);
    }
    KERNEL_ON.store(false, Ordering::SeqCst);
    unsafe {
        *KERNEL.0.get() = None;
    }
}

pub fn kind_of(path: &str) -> Option<usize> {
    if path.ends_with(".htx") {
        Some(0)
    } else if path.ends_with(".key") {
        Some(1)
    } else if path.ends_with(".val") {
        Some(2)
    } else {
        None
    }
}

impl Kernel {
    /// forget all files, descriptors, faults, counters (new episode)
    pub fn reset(&mut self) {
        self.inodes.clear();
        self.names.clear();
        self.fds.clear();
        self.seq = 0;
        self.trace_hash = 0x1234_5678_9abc_def0;
        self.step = 0;
        self.step_events.clear();
        self.counts = [0; NOPS];
        if let Some(l) = self.log.as_mut() {
            l.clear();
        }
        self.directives.clear();
        self.caps.clear();
        self.bug = None;
        self.fired.clear();
        self.bytes_written = 0;
        self.bytes_read = 0;
    }
    pub fn set_step(&mut self, step: u32) {
        self.step = step;
        self.step_events.clear();
        for d in self.directives.iter_mut() {
            d.seen = 0;
        }
    }
    /// per-file size cap from now on. In Trace mode (real kernel) the cap is the real
    /// RLIMIT_FSIZE of the process (all files; SIGXFSZ ignored): used by `selftest twin-cap`
    /// to compare the simulated size-cap fault with the real thing.
    pub fn set_cap(&mut self, file: &str, cap: u64) {
        self.caps.push((file.to_string(), cap));
        if self.mode == Mode::Trace {
            real_fsize_limit(Some(cap));
        }
    }
    pub fn lift_faults(&mut self) {
        if self.mode == Mode::Trace && !self.caps.is_empty() {
            real_fsize_limit(None);
        }
        self.caps.clear();
        for i in self.inodes.iter_mut() {
            i.refuse = None;
            i.pending_errno = None;
        }
        self.directives.retain(|d| !d.fired);
    }
    pub fn file(&self, path: &str) -> Option<&Inode> {
        self.names.get(path).map(|&i| &self.inodes[i])
    }
    pub fn file_mut(&mut self, path: &str) -> Option<&mut Inode> {
        match self.names.get(path) {
            Some(&i) => Some(&mut self.inodes[i]),
            None => None,
        }
    }
    pub fn exists(&self, path: &str) -> bool {
        self.names.contains_key(path)
    }
    pub fn paths(&self) -> Vec<String> {
        self.names.keys().cloned().collect()
    }
    pub fn open_fd_count(&self) -> usize {
        self.fds.iter().filter(|f| f.is_some()).count()
    }
    pub fn install_file(&mut self, path: &str, img: Img) {
        let ino = self.lookup_or_create(path);
        let n = &mut self.inodes[ino];
        n.durable = img.clone();
        n.written = img;
        n.ever_synced = true;
    }
    pub fn remove_file(&mut self, path: &str) {
        // only legal while no descriptor is open on it (harness discipline)
        if let Some(i) = self.names.remove(path) {
            self.inodes[i].written = Img::new();
            self.inodes[i].durable = Img::new();
            self.inodes[i].path = String::new();
        }
    }
    fn lookup_or_create(&mut self, path: &str) -> usize {
        if let Some(&i) = self.names.get(path) {
            return i;
        }
        let i = self.inodes.len();
        self.inodes.push(Inode {
            path: path.to_string(),
            written: Img::new(),
            durable: Img::new(),
            ever_synced: false,
            last_mod_seq: 0,
            last_sync_seq: 0,
            last_sync_op: None,
            refuse: None,
            pending_errno: None,
            eintr_guard: [false; NOPS],
        });
        self.names.insert(path.to_string(), i);
        i
    }
    fn fire(&mut self, what: &'static str) {
        *self.fired.entry(what).or_insert(0) += 1;
    }
    fn record(&mut self, op: KOp, ino: usize, off: u64, len: u64, ret: i64) {
        self.seq += 1;
        self.counts[op as usize] += 1;
        let mut h = self.trace_hash;
        for v in [op as u64, ino as u64, off, len, ret as u64] {
            h = (h ^ v).wrapping_mul(0x100_0000_01b3);
            h ^= h >> 31;
        }
        self.trace_hash = h;
        let ev = KEvent { seq: self.seq, op, ino: ino as u32, off, len, ret };
        if let Some(l) = self.log.as_mut() {
            l.push(ev.clone());
        }
        if self.step_events.len() < 200_000 {
            self.step_events.push(ev);
        }
    }
    /// decide whether an explicit directive applies to this call
    fn directive_for(&mut self, op: KOp, ino: usize) -> Option<(Action, bool)> {
        if self.directives.is_empty() {
            return None;
        }
        let step = self.step;
        let path = self.inodes[ino].path.clone();
        let mut hit = None;
        for d in self.directives.iter_mut() {
            if d.fired || d.step != step || d.op != op || !path.ends_with(&d.file) {
                continue;
            }
            if d.seen == d.nth && hit.is_none() {
                d.fired = true;
                hit = Some((d.action.clone(), d.sticky));
            }
            d.seen += 1;
        }
        hit
    }
    fn cap_for(&self, ino: usize) -> Option<u64> {
        if self.caps.is_empty() {
            return None;
        }
        let p = &self.inodes[ino].path;
        self.caps.iter().filter(|(s, _)| p.ends_with(s.as_str())).map(|(_, c)| *c).min()
    }
    fn bug_applies(&self, ino: usize) -> bool {
        match (&self.bug, kind_of(&self.inodes[ino].path)) {
            (Some(b), Some(k)) => b.kinds[k],
            _ => false,
        }
    }
    /// EINTR decision for an interruptible call; never twice in a row for the same op on a file
    fn eintr(&mut self, op: KOp, ino: usize) -> bool {
        if !self.bug_applies(ino) {
            return false;
        }
        if self.inodes[ino].eintr_guard[op as usize] {
            self.inodes[ino].eintr_guard[op as usize] = false;
            return false;
        }
        let b = self.bug.as_mut().unwrap();
        if b.eintr > 0 && b.rng.below(1000) < b.eintr as u64 {
            self.inodes[ino].eintr_guard[op as usize] = true;
            self.fire("eintr");
            return true;
        }
        false
    }

    // ---------------- the system calls (simulated files only) ----------------

    fn sys_open(&mut self, path: &str, flags: c_int) -> Result<c_int, i32> {
        let existed = self.names.contains_key(path);
        if !existed && flags & libc::O_CREAT == 0 {
            return Err(libc::ENOENT);
        }
        if existed && flags & libc::O_CREAT != 0 && flags & libc::O_EXCL != 0 {
            return Err(libc::EEXIST);
        }
        let ino = self.lookup_or_create(path);
        if let Some((Action::Errno(e), _)) = self.directive_for(KOp::Open, ino) {
            self.fire("open-refused");
            self.record(KOp::Open, ino, 0, 0, -(e as i64));
            return Err(e);
        }
        if self.eintr(KOp::Open, ino) {
            self.record(KOp::Open, ino, 0, 0, -(libc::EINTR as i64));
            return Err(libc::EINTR);
        }
        if flags & libc::O_TRUNC != 0 {
            self.inodes[ino].written.set_len(0);
            self.inodes[ino].last_mod_seq = self.seq + 1;
        }
        let slot = match self.fds.iter().position(|f| f.is_none()) {
            Some(s) => s,
            None => {
                self.fds.push(None);
                self.fds.len() - 1
            }
        };
        self.fds[slot] = Some(Fd { ino, pos: 0 });
        self.record(KOp::Open, ino, 0, existed as u64, slot as i64);
        Ok(FAKE_FD_BASE + slot as c_int)
    }

    fn fd(&mut self, fd: c_int) -> Result<usize, i32> {
        let s = (fd - FAKE_FD_BASE) as usize;
        match self.fds.get(s) {
            Some(Some(f)) => Ok(f.ino),
            _ => Err(libc::EBADF),
        }
    }

    fn sys_read(&mut self, fd: c_int, buf: &mut [u8]) -> Result<usize, i32> {
        let ino = self.fd(fd)?;
        let s = (fd - FAKE_FD_BASE) as usize;
        let pos = self.fds[s].as_ref().unwrap().pos;
        if let Some((act, _)) = self.directive_for(KOp::Read, ino) {
            if let Action::Errno(e) = act {
                self.fire("read-error");
                self.record(KOp::Read, ino, pos, buf.len() as u64, -(e as i64));
                return Err(e);
            }
        }
        if self.eintr(KOp::Read, ino) {
            self.record(KOp::Read, ino, pos, buf.len() as u64, -(libc::EINTR as i64));
            return Err(libc::EINTR);
        }
        let mut want = buf.len();
        if want > 1 && self.bug_applies(ino) {
            let b = self.bug.as_mut().unwrap();
            if b.short_read > 0 && b.rng.below(1000) < b.short_read as u64 {
                want = 1 + b.rng.below(want as u64 - 1) as usize;
                self.fire("short-read");
            }
        }
        let n = self.inodes[ino].written.read_at(pos, &mut buf[..want]);
        self.fds[s].as_mut().unwrap().pos = pos + n as u64;
        self.bytes_read += n as u64;
        self.record(KOp::Read, ino, pos, buf.len() as u64, n as i64);
        Ok(n)
    }

    fn sys_write(&mut self, fd: c_int, data: &[u8]) -> Result<usize, i32> {
        let ino = self.fd(fd)?;
        let s = (fd - FAKE_FD_BASE) as usize;
        let pos = self.fds[s].as_ref().unwrap().pos;
        let len = data.len();
        // persistent refusal armed earlier
        if let Some(e) = self.inodes[ino].refuse {
            self.fire("write-refused");
            self.record(KOp::Write, ino, pos, len as u64, -(e as i64));
            return Err(e);
        }
        if let Some((e, sticky)) = self.inodes[ino].pending_errno.take() {
            if sticky {
                self.inodes[ino].refuse = Some(e);
            }
            self.fire("write-refused");
            self.record(KOp::Write, ino, pos, len as u64, -(e as i64));
            return Err(e);
        }
        let mut take = len;
        if let Some((act, sticky)) = self.directive_for(KOp::Write, ino) {
            match act {
                Action::Errno(e) => {
                    if sticky {
                        self.inodes[ino].refuse = Some(e);
                    }
                    self.fire("write-refused");
                    self.record(KOp::Write, ino, pos, len as u64, -(e as i64));
                    return Err(e);
                }
                Action::Short(n) => {
                    if len > 1 {
                        take = (n.max(1) as usize).min(len - 1);
                        self.fire("short-write");
                    }
                }
                Action::ShortThenErrno(n, e) => {
                    if n == 0 || len <= 1 {
                        if sticky {
                            self.inodes[ino].refuse = Some(e);
                        }
                        self.fire("write-refused");
                        self.record(KOp::Write, ino, pos, len as u64, -(e as i64));
                        return Err(e);
                    }
                    take = (n as usize).min(len - 1);
                    self.inodes[ino].pending_errno = Some((e, sticky));
                    self.fire("partial-write");
                }
            }
        } else {
            if self.eintr(KOp::Write, ino) {
                self.record(KOp::Write, ino, pos, len as u64, -(libc::EINTR as i64));
                return Err(libc::EINTR);
            }
            if len > 1 && self.bug_applies(ino) {
                let b = self.bug.as_mut().unwrap();
                if b.short_write > 0 && b.rng.below(1000) < b.short_write as u64 {
                    take = 1 + b.rng.below(len as u64 - 1) as usize;
                    self.fire("short-write");
                }
            }
        }
        if let Some(cap) = self.cap_for(ino) {
            if len > 0 && pos >= cap {
                self.fire("size-cap");
                self.record(KOp::Write, ino, pos, len as u64, -(libc::EFBIG as i64));
                return Err(libc::EFBIG);
            }
            if pos + take as u64 > cap {
                take = (cap - pos) as usize;
                self.fire("size-cap");
            }
        }
        self.inodes[ino].written.write_at(pos, &data[..take]);
        self.inodes[ino].last_mod_seq = self.seq + 1;
        self.fds[s].as_mut().unwrap().pos = pos + take as u64;
        self.bytes_written += take as u64;
        self.record(KOp::Write, ino, pos, len as u64, take as i64);
        Ok(take)
    }

    fn sys_lseek(&mut self, fd: c_int, off: i64, whence: c_int) -> Result<u64, i32> {
        let ino = self.fd(fd)?;
        let s = (fd - FAKE_FD_BASE) as usize;
        let cur = self.fds[s].as_ref().unwrap().pos as i64;
        let end = self.inodes[ino].written.len as i64;
        let np = match whence {
            libc::SEEK_SET => off,
            libc::SEEK_CUR => cur.checked_add(off).ok_or(libc::EOVERFLOW)?,
            libc::SEEK_END => end.checked_add(off).ok_or(libc::EOVERFLOW)?,
            _ => return Err(libc::EINVAL),
        };
        if np < 0 {
            self.record(KOp::Lseek, ino, off as u64, whence as u64, -(libc::EINVAL as i64));
            return Err(libc::EINVAL);
        }
        self.fds[s].as_mut().unwrap().pos = np as u64;
        self.record(KOp::Lseek, ino, off as u64, whence as u64, np);
        Ok(np as u64)
    }

    fn sys_ftruncate(&mut self, fd: c_int, len: i64) -> Result<(), i32> {
        let ino = self.fd(fd)?;
        if len < 0 {
            return Err(libc::EINVAL);
        }
        let len = len as u64;
        let cur = self.inodes[ino].written.len;
        if len > cur {
            if let Some(e) = self.inodes[ino].refuse {
                self.fire("truncate-refused");
                self.record(KOp::Ftruncate, ino, len, 0, -(e as i64));
                return Err(e);
            }
        }
        if let Some((act, sticky)) = self.directive_for(KOp::Ftruncate, ino) {
            let e = match act {
                Action::Errno(e) | Action::ShortThenErrno(_, e) => e,
                Action::Short(_) => 0,
            };
            if e != 0 {
                if sticky {
                    self.inodes[ino].refuse = Some(e);
                }
                self.fire("truncate-refused");
                self.record(KOp::Ftruncate, ino, len, 0, -(e as i64));
                return Err(e);
            }
        }
        if self.eintr(KOp::Ftruncate, ino) {
            self.record(KOp::Ftruncate, ino, len, 0, -(libc::EINTR as i64));
            return Err(libc::EINTR);
        }
        if let Some(cap) = self.cap_for(ino) {
            // like the real RLIMIT_FSIZE: only a truncate that grows the file is checked
            // (found by `selftest twin-cap`)
            if len > cap && len > cur {
                self.fire("size-cap");
                self.record(KOp::Ftruncate, ino, len, 0, -(libc::EFBIG as i64));
                return Err(libc::EFBIG);
            }
        }
        self.inodes[ino].written.set_len(len);
        self.inodes[ino].last_mod_seq = self.seq + 1;
        self.record(KOp::Ftruncate, ino, len, 0, 0);
        Ok(())
    }

    fn sys_sync(&mut self, fd: c_int, op: KOp) -> Result<(), i32> {
        let ino = self.fd(fd)?;
        if let Some((act, _)) = self.directive_for(op, ino) {
            let e = match act {
                Action::Errno(e) | Action::ShortThenErrno(_, e) => e,
                Action::Short(_) => 0,
            };
            if e != 0 {
                self.fire("fsync-error");
                self.record(op, ino, 0, 0, -(e as i64));
                return Err(e);
            }
        }
        if self.eintr(op, ino) {
            self.record(op, ino, 0, 0, -(libc::EINTR as i64));
            return Err(libc::EINTR);
        }
        let n = &mut self.inodes[ino];
        n.durable = n.written.clone();
        n.ever_synced = true;
        n.last_sync_seq = self.seq + 1;
        n.last_sync_op = Some(op);
        self.record(op, ino, 0, 0, 0);
        Ok(())
    }

    fn sys_close(&mut self, fd: c_int) -> Result<(), i32> {
        let ino = self.fd(fd)?;
        let s = (fd - FAKE_FD_BASE) as usize;
        self.fds[s] = None;
        self.record(KOp::Close, ino, 0, 0, 0);
        Ok(())
    }

    // ---------------- trace mode bookkeeping (real descriptors) ----------------

    fn trace_ino_for(&mut self, path: &str) -> usize {
        self.lookup_or_create(path)
    }
}

// ------------------------------------------------------------------------------------------
// raw pass-through
// ------------------------------------------------------------------------------------------

/// return value as the simulated kernel records it: -errno on failure
#[inline]
fn traced_ret(r: i64) -> i64 {
    if r < 0 {
        -(unsafe { *libc::__errno_location() } as i64)
    } else {
        r
    }
}

#[inline]
unsafe fn set_errno(e: i32) {
    *libc::__errno_location() = e;
}

#[inline]
unsafe fn raw_open(path: *const c_char, flags: c_int, mode: mode_t) -> c_int {
    libc::syscall(libc::SYS_openat, libc::AT_FDCWD as c_long, path, flags as c_long, mode as c_long)
        as c_int
}

unsafe fn path_str<'a>(path: *const c_char) -> Option<&'a str> {
    if path.is_null() {
        return None;
    }
    std::ffi::CStr::from_ptr(path).to_str().ok()
}

#[inline]
fn sim_path(p: &str) -> bool {
    if !installed() || HARNESS_IO.load(Ordering::Relaxed) {
        return false;
    }
    unsafe {
        match (*KERNEL.0.get()).as_ref() {
            Some(k) => p.starts_with(k.root.as_str()) && kind_of(p).is_some(),
            None => false,
        }
    }
}

unsafe fn do_open(path: *const c_char, flags: c_int, mode: mode_t) -> c_int {
    if installed() {
        if let Some(p) = path_str(path) {
            if sim_path(p) {
                let m = with(|k| k.mode);
                if m == Mode::Sim {
                    return match with(|k| k.sys_open(p, flags)) {
                        Ok(fd) => fd,
                        Err(e) => {
                            set_errno(e);
                            -1
                        }
                    };
                } else {
                    let existed = std::path::Path::new(p).exists();
                    let fd = raw_open(path, flags, mode);
                    if fd >= 0 {
                        with(|k| {
                            let ino = k.trace_ino_for(p);
                            k.real_fds.insert(fd, Fd { ino, pos: 0 });
                            // report the same pseudo-descriptor numbering as Sim mode would
                            let slot = k.real_fds.len() as i64 - 1;
                            let _ = slot;
                            k.record(KOp::Open, ino, 0, existed as u64, 0);
                        });
                    }
                    return fd;
                }
            }
        }
    }
    raw_open(path, flags, mode)
}

#[no_mangle]
pub unsafe extern "C" fn open64(path: *const c_char, flags: c_int, mode: mode_t) -> c_int {
    do_open(path, flags, mode)
}
#[no_mangle]
pub unsafe extern "C" fn open(path: *const c_char, flags: c_int, mode: mode_t) -> c_int {
    do_open(path, flags, mode)
}

#[inline]
fn is_fake(fd: c_int) -> bool {
    fd >= FAKE_FD_BASE && installed()
}

#[inline]
fn traced(fd: c_int) -> bool {
    if !installed() {
        return false;
    }
    unsafe {
        match (*KERNEL.0.get()).as_ref() {
            Some(k) => k.mode == Mode::Trace && k.real_fds.contains_key(&fd),
            None => false,
        }
    }
}

#[no_mangle]
pub unsafe extern "C" fn read(fd: c_int, buf: *mut c_void, count: size_t) -> ssize_t {
    if is_fake(fd) {
        let sl = std::slice::from_raw_parts_mut(buf as *mut u8, count);
        return match with(|k| k.sys_read(fd, sl)) {
            Ok(n) => n as ssize_t,
            Err(e) => {
                set_errno(e);
                -1
            }
        };
    }
    let r = libc::syscall(libc::SYS_read, fd as c_long, buf, count) as ssize_t;
    if traced(fd) {
        with(|k| {
            let f = k.real_fds.get_mut(&fd).unwrap();
            let (ino, pos) = (f.ino, f.pos);
            if r > 0 {
                f.pos += r as u64;
            }
            k.record(KOp::Read, ino, pos, count as u64, traced_ret(r as i64));
        });
    }
    r
}

#[no_mangle]
pub unsafe extern "C" fn write(fd: c_int, buf: *const c_void, count: size_t) -> ssize_t {
    if is_fake(fd) {
        let sl = std::slice::from_raw_parts(buf as *const u8, count);
        return match with(|k| k.sys_write(fd, sl)) {
            Ok(n) => n as ssize_t,
            Err(e) => {
                set_errno(e);
                -1
            }
        };
    }
    let r = libc::syscall(libc::SYS_write, fd as c_long, buf, count) as ssize_t;
    if traced(fd) {
        with(|k| {
            let f = k.real_fds.get_mut(&fd).unwrap();
            let (ino, pos) = (f.ino, f.pos);
            if r > 0 {
                f.pos += r as u64;
            }
            k.record(KOp::Write, ino, pos, count as u64, traced_ret(r as i64));
        });
    }
    r
}

unsafe fn do_lseek(fd: c_int, off: off_t, whence: c_int) -> off_t {
    if is_fake(fd) {
        return match with(|k| k.sys_lseek(fd, off, whence)) {
            Ok(p) => p as off_t,
            Err(e) => {
                set_errno(e);
                -1
            }
        };
    }
    let r = libc::syscall(libc::SYS_lseek, fd as c_long, off as c_long, whence as c_long) as off_t;
    if traced(fd) {
        with(|k| {
            let f = k.real_fds.get_mut(&fd).unwrap();
            if r >= 0 {
                f.pos = r as u64;
            }
            let ino = f.ino;
            k.record(KOp::Lseek, ino, off as u64, whence as u64, traced_ret(r as i64));
        });
    }
    r
}
#[no_mangle]
pub unsafe extern "C" fn lseek64(fd: c_int, off: off_t, whence: c_int) -> off_t {
    do_lseek(fd, off, whence)
}
#[no_mangle]
pub unsafe extern "C" fn lseek(fd: c_int, off: off_t, whence: c_int) -> off_t {
    do_lseek(fd, off, whence)
}

unsafe fn do_ftruncate(fd: c_int, len: off_t) -> c_int {
    if is_fake(fd) {
        return match with(|k| k.sys_ftruncate(fd, len)) {
            Ok(()) => 0,
            Err(e) => {
                set_errno(e);
                -1
            }
        };
    }
    let r = libc::syscall(libc::SYS_ftruncate, fd as c_long, len as c_long) as c_int;
    if traced(fd) {
        with(|k| {
            let ino = k.real_fds.get(&fd).unwrap().ino;
            k.record(KOp::Ftruncate, ino, len as u64, 0, traced_ret(r as i64));
        });
    }
    r
}
#[no_mangle]
pub unsafe extern "C" fn ftruncate64(fd: c_int, len: off_t) -> c_int {
    do_ftruncate(fd, len)
}
#[no_mangle]
pub unsafe extern "C" fn ftruncate(fd: c_int, len: off_t) -> c_int {
    do_ftruncate(fd, len)
}

#[no_mangle]
pub unsafe extern "C" fn fsync(fd: c_int) -> c_int {
    if is_fake(fd) {
        return match with(|k| k.sys_sync(fd, KOp::Fsync)) {
            Ok(()) => 0,
            Err(e) => {
                set_errno(e);
                -1
            }
        };
    }
    let r = libc::syscall(libc::SYS_fsync, fd as c_long) as c_int;
    if traced(fd) {
        with(|k| {
            let ino = k.real_fds.get(&fd).unwrap().ino;
            k.record(KOp::Fsync, ino, 0, 0, traced_ret(r as i64));
        });
    }
    r
}

#[no_mangle]
pub unsafe extern "C" fn fdatasync(fd: c_int) -> c_int {
    if is_fake(fd) {
        return match with(|k| k.sys_sync(fd, KOp::Fdatasync)) {
            Ok(()) => 0,
            Err(e) => {
                set_errno(e);
                -1
            }
        };
    }
    let r = libc::syscall(libc::SYS_fdatasync, fd as c_long) as c_int;
    if traced(fd) {
        with(|k| {
            let ino = k.real_fds.get(&fd).unwrap().ino;
            k.record(KOp::Fdatasync, ino, 0, 0, traced_ret(r as i64));
        });
    }
    r
}

#[no_mangle]
pub unsafe extern "C" fn close(fd: c_int) -> c_int {
    if is_fake(fd) {
        return match with(|k| k.sys_close(fd)) {
            Ok(()) => 0,
            Err(e) => {
                set_errno(e);
                -1
            }
        };
    }
    if traced(fd) {
        with(|k| {
            let ino = k.real_fds.remove(&fd).unwrap().ino;
            k.record(KOp::Close, ino, 0, 0, 0);
        });
    }
    libc::syscall(libc::SYS_close, fd as c_long) as c_int
}

/// std checks with `fcntl(fd, F_GETFD)` that a descriptor is still open before closing it
/// when debug assertions are enabled; simulated descriptors must answer.
#[no_mangle]
pub unsafe extern "C" fn fcntl(fd: c_int, cmd: c_int, arg: c_long) -> c_int {
    if is_fake(fd) {
        return match with(|k| k.fd(fd)) {
            Ok(_) => 0,
            Err(e) => {
                set_errno(e);
                -1
            }
        };
    }
    libc::syscall(libc::SYS_fcntl, fd as c_long, cmd as c_long, arg) as c_int
}
#[no_mangle]
pub unsafe extern "C" fn fcntl64(fd: c_int, cmd: c_int, arg: c_long) -> c_int {
    fcntl(fd, cmd, arg)
}
