//! Per-property episode families (DESIGN §5).  `episodes(prop, tier, base_seed, index)` is a
//! pure function; the family of run `index` is what one "evaluation" executes.

use crate::gen::*;
use crate::kernel::{Action, Directive, KOp};
use crate::ops::*;
use crate::rng::{mix, str_id, Rng};

#[derive(Clone, Copy, Debug, PartialEq, Eq)]
pub enum Tier {
    Quick,
    Thorough,
}

impl Tier {
    pub fn name(self) -> &'static str {
        match self {
            Tier::Quick => "quick",
            Tier::Thorough => "thorough",
        }
    }
}

pub const ALL_PROPS: [&str; 18] = [
    "C01", "C02", "C03", "C04", "C05", "C06", "C07", "C08", "C09", "C10", "C11", "C12", "C13", "C14", "C15", "C16", "C17", "C18",
];

pub fn run_seed(prop: &str, base_seed: u64, index: u64) -> u64 {
    mix(&[base_seed, str_id(prop), index])
}

/// number of evaluations per tier (wall-clock caps are applied by the coordinator)
pub fn budget(prop: &str, tier: Tier) -> u64 {
    let q = match prop {
        "C01" => 80_000,
        "C02" => 40_000,
        "C03" => 150_000,
        "C04" => 300_000,
        "C05" => 12_000,
        "C06" => 20_000,
        "C07" => 7_000,
        "C08" => 25_000,
        "C09" => 2_400,
        "C10" => 300_000,
        "C11" => 100_000,
        "C12" => 25_000,
        "C13" => c13_cases().len() as u64,
        "C14" => 250_000,
        "C15" => 300_000,
        "C16" => 4_000,
        "C17" => 150_000,
        "C18" => 25_000,
        _ => 1000,
    };
    match (tier, prop) {
        (Tier::Quick, _) => q,
        (Tier::Thorough, "C13") => q,
        (Tier::Thorough, "C09") => q * 6,
        (Tier::Thorough, _) => q * 12,
    }
}

fn ktype_pick(r: &mut Rng) -> KType {
    *r.pick(&[KType::Str, KType::Str, KType::Bytes, KType::Bytes, KType::U64, KType::I64, KType::Vu64])
}

fn bytes_ktype(r: &mut Rng) -> KType {
    *r.pick(&[KType::Str, KType::Bytes])
}

fn single_map(r: &mut Rng, kt: KType, params: Params) -> Vec<MapSpec> {
    let name = *r.pick(&map_names());
    vec![MapSpec { name: name.to_string(), kt, params, dir: 0 }]
}

fn base_episode(prop: &str, profile: &str, seed: u64, maps: Vec<MapSpec>, steps: Vec<Step>, checks: Checks) -> Episode {
    Episode { property: prop.to_string(), profile: profile.to_string(), seed, maps, steps, faults: vec![], buggify: None, checks, plan: Plan::Single, poison: 0, preload: None, isolate: false }
}

fn small_params(r: &mut Rng) -> Params {
    Params { buckets: pick_small_buckets(r), htx: pick_buf(r, false), key: pick_buf(r, true), val: pick_buf(r, true) }
}

/// shared shape of the update histories (C01 style): (params, alphabet, kd, vd, steps, name)
fn update_variant(g: &mut Gen, thorough: bool, long_ok: bool) -> (Params, usize, KeyDist, ValDist, usize, &'static str) {
    let variant = g.rng.weighted(&[32, 28, 22, if long_ok { 10 } else { 0 }, 8]);
    match variant {
        4 => {
            // churn on the large free list, incl. slots of 128 KiB and more
            let mut p = pick_params(&mut g.rng, false);
            if g.rng.chance(1, 2) {
                p.buckets = pick_small_buckets(&mut g.rng);
            }
            (p, g.rng.range(2, 8) as usize, KeyDist::Short, ValDist::LargeChurn, g.rng.range(8, 60) as usize, "large-churn")
        }
        0 => {
            let p = small_params(&mut g.rng);
            (p, g.rng.range(1, 8) as usize, KeyDist::Boundary, ValDist::Boundary, g.rng.range(10, 120) as usize, "tiny")
        }
        1 => (pick_params(&mut g.rng, false), g.rng.range(2, 40) as usize, KeyDist::Mixed, ValDist::Mixed, g.rng.range(10, 150) as usize, "boundary"),
        2 => {
            let mut p = pick_params(&mut g.rng, false);
            if g.rng.chance(1, 2) {
                p.buckets = pick_small_buckets(&mut g.rng);
            }
            (p, g.rng.range(2, 24) as usize, KeyDist::Boundary, ValDist::Pushing, g.rng.range(30, 200) as usize, "grow-churn")
        }
        _ => {
            let n = if thorough { g.rng.range(2000, 100_000) } else { g.rng.range(500, 4000) };
            (pick_params(&mut g.rng, thorough), g.rng.range(8, 64) as usize, KeyDist::Mixed, ValDist::Mixed, n as usize, "long")
        }
    }
}

pub fn c01(seed: u64, tier: Tier) -> Vec<Episode> {
    let thorough = tier == Tier::Thorough;
    let mut g = Gen::new(seed, thorough);
    let kt = ktype_pick(&mut g.rng);
    let (params, alphabet, kd, vd, steps, name) = update_variant(&mut g, thorough, true);
    let maps = single_map(&mut g.rng, kt, params);
    let mut w = Weights::basic();
    w.empty_out = *g.rng.pick(&[0u32, 0, 1]);
    let cfg = HistCfg { maps: maps.clone(), alphabet, kd, vd, steps, w, one_bucket: false, reopen_params: false, xproc_every: 0, bulk_max: 0 };
    let st = history(&mut g, &cfg);
    let checks = Checks { model: true, audit_every: 64, panics: true, ..Default::default() };
    let mut ep = base_episode("C01", name, seed, maps, st, checks);
    ep.buggify = buggify(&mut g, seed);
    vec![ep]
}

pub fn c02(seed: u64, tier: Tier) -> Vec<Episode> {
    let thorough = tier == Tier::Thorough;
    let mut g = Gen::new(seed, thorough);
    let kt = ktype_pick(&mut g.rng);
    let (params, alphabet, kd, vd, steps, name) = update_variant(&mut g, thorough, false);
    let mut maps = single_map(&mut g.rng, kt, params);
    if g.rng.chance(1, 3) {
        maps.push(MapSpec { name: "second".into(), kt: ktype_pick(&mut g.rng), params: small_params(&mut g.rng), dir: 0 });
    }
    let mut w = Weights::basic();
    w.reopen = *g.rng.pick(&[3u32, 6, 12]);
    w.handles = 6;
    w.iter_steps = 3;
    w.traverse = 2;
    w.empty_out = *g.rng.pick(&[0u32, 1, 3]);
    let cfg = HistCfg { maps: maps.clone(), alphabet, kd, vd, steps, w, one_bucket: false, reopen_params: true, xproc_every: if thorough { 1 } else { 8 }, bulk_max: 0 };
    let mut st = Vec::new();
    if g.rng.chance(1, 6) {
        // a few very long keys push the key file past 128 KiB early in the history
        for _ in 0..g.rng.range(3, 5) {
            let tag = g.next_tag();
            let v = g.value_of_len(3);
            st.push(Step::Put { h: 0, k: if kt.is_int() { Key::U(tag) } else { Key::G { len: 50_000 + (tag % 9000) as u32, tag } }, v, mode: KeyMode::Ref });
        }
        if g.rng.chance(1, 2) {
            // ... and are deleted again in insertion order
            let ks: Vec<Key> = st.iter().filter_map(|s| if let Step::Put { k, .. } = s { Some(k.clone()) } else { None }).collect();
            for k in ks {
                st.push(Step::Del { h: 0, k, mode: KeyMode::Ref });
            }
            st.push(Step::Reopen { params: None, xproc: false });
        }
    }
    st.extend(history(&mut g, &cfg));
    st.push(Step::Reopen { params: Some(maps.iter().map(|_| pick_params(&mut g.rng, false)).collect()), xproc: g.rng.chance(1, 8) || thorough });
    let checks = Checks { model: true, audit_traverse: true, decode_on_close: true, reopen_must_succeed: true, iter: true, decoder_scope: "contents".into(), ..Default::default() };
    let mut ep = base_episode("C02", name, seed, maps, st, checks);
    ep.buggify = buggify(&mut g, seed);
    vec![ep]
}

pub fn c03(seed: u64, tier: Tier) -> Vec<Episode> {
    let thorough = tier == Tier::Thorough;
    let mut g = Gen::new(seed, thorough);
    let nm = *g.rng.pick(&[1usize, 1, 1, 2, 3, 4]);
    let names = map_names();
    let maps: Vec<MapSpec> = (0..nm)
        .map(|i| {
            let p = if g.rng.chance(1, 2) { small_params(&mut g.rng) } else { pick_params(&mut g.rng, false) };
            MapSpec { name: names[i].to_string(), kt: ktype_pick(&mut g.rng), params: p, dir: 0 }
        })
        .collect();
    let mut w = Weights::basic();
    w.flush = 8;
    w.sync = 10;
    w.db_sync = 6;
    w.handles = 3;
    w.bulk = 2;
    let vd = *g.rng.pick(&[ValDist::Boundary, ValDist::Mixed, ValDist::Mixed, ValDist::Pushing]);
    let cfg = HistCfg { maps: maps.clone(), alphabet: g.rng.range(2, 30) as usize, kd: KeyDist::Mixed, vd, steps: g.rng.range(5, 120) as usize, w, one_bucket: false, reopen_params: false, xproc_every: 0, bulk_max: 6 };
    let mut st = Vec::new();
    if g.rng.chance(1, 4) {
        // sync directly after creation, no update at all
        st.push(match g.rng.below(4) {
            0 => Step::Flush { h: 0 },
            1 => Step::SyncAll { h: 0 },
            2 => Step::SyncData { h: 0 },
            _ => Step::DbSyncAll { d: 0 },
        });
    }
    st.extend(history(&mut g, &cfg));
    st.push(match g.rng.below(5) {
        0 => Step::Flush { h: 0 },
        1 => Step::SyncAll { h: 0 },
        2 => Step::SyncData { h: 0 },
        3 => Step::DbSyncData { d: 0 },
        _ => Step::DbSyncAll { d: 0 },
    });
    let mut checks = Checks { crash_points: true, sync_trace: true, crash_reopen_every: if thorough { 1 } else { 3 }, audit_traverse: true, decoder_scope: "contents".into(), ..Default::default() };
    let mut ep_buggify = buggify(&mut g, seed);
    // crash twin (real process, real kernel, SIGKILL at a sync point): a sample of the episodes
    if seed % (if thorough { 25 } else { 150 }) == 0 {
        checks.kill_twin = true;
        ep_buggify = None;
    }
    let mut ep = base_episode("C03", "sync-points", seed, maps, st, checks);
    ep.buggify = ep_buggify;
    vec![ep]
}

pub fn c04(seed: u64, tier: Tier) -> Vec<Episode> {
    let thorough = tier == Tier::Thorough;
    let mut g = Gen::new(seed, thorough);
    let kt = ktype_pick(&mut g.rng);
    let mut params = pick_params(&mut g.rng, thorough);
    // every size class around the 8- and 64-bucket strides of the bitmap scan
    if g.rng.chance(2, 3) {
        params.buckets = Buckets::Size(*g.rng.pick(&[1u64, 2, 4, 8, 16, 32, 64, 128, 128, 256, 256, 512, 1024, 4096, 65536]));
    }
    let mut maps = single_map(&mut g.rng, kt, params.clone());
    if g.rng.chance(1, 3) {
        maps.push(MapSpec { name: "other".into(), kt: ktype_pick(&mut g.rng), params: small_params(&mut g.rng), dir: 0 });
    }
    let nb = params.expected_buckets(false);
    let mut st: Vec<Step> = Vec::new();
    // optionally place single entries at chosen bucket positions (0, 7, 8, n-9, n-8, n-1)
    if nb >= 16 && nb <= 65536 && !kt.is_int() && g.rng.chance(1, 2) {
        let mut targets = vec![0u64, 7, 8, nb - 9, nb - 8, nb - 1, nb / 2];
        crate::runner::seeded_shuffle(&mut targets, &mut g.rng);
        targets.truncate(g.rng.range(1, 4) as usize);
        for t in targets {
            let n = g.rng.range(1, 3) as usize;
            let ks = g.alphabet(kt, n, KeyDist::Short, Some((nb, t)));
            for k in ks {
                let v = g.value(ValDist::Tiny);
                st.push(Step::Put { h: 0, k, v, mode: KeyMode::Ref });
            }
        }
    }
    let mut w = Weights::basic();
    w.put = 30;
    w.del = 22;
    w.traverse = 14;
    w.iter_steps = 16;
    w.get = 8;
    w.handles = 3;
    let alphabet = *g.rng.pick(&[1usize, 2, 3, 5, 8, 16, 40, 120]);
    let cfg = HistCfg { maps: maps.clone(), alphabet, kd: KeyDist::Short, vd: ValDist::Tiny, steps: g.rng.range(5, 160) as usize, w, one_bucket: g.rng.chance(1, 8), reopen_params: false, xproc_every: 0, bulk_max: 0 };
    st.extend(history(&mut g, &cfg));
    // sometimes empty the map again before the final traversals
    if g.rng.chance(1, 6) {
        let keys: Vec<Key> = st.iter().filter_map(|s| if let Step::Put { h: 0, k, .. } = s { Some(k.clone()) } else { None }).collect();
        for k in keys {
            st.push(Step::Del { h: 0, k, mode: KeyMode::Ref });
        }
    }
    for fl in ALL_FLAVOURS {
        if g.rng.chance(2, 3) {
            st.push(Step::Traverse { h: 0, fl, stop_after: None });
        }
    }
    let checks = Checks { iter: true, ..Default::default() };
    let mut ep = base_episode("C04", "traversals", seed, maps, st, checks);
    ep.buggify = buggify(&mut g, seed);
    vec![ep]
}

pub fn c05(seed: u64, tier: Tier) -> Vec<Episode> {
    let thorough = tier == Tier::Thorough;
    let mut g = Gen::new(seed, thorough);
    let kt = ktype_pick(&mut g.rng);
    let (params, alphabet, kd, vd, steps, name) = update_variant(&mut g, thorough, true);
    let maps = single_map(&mut g.rng, kt, params);
    let mut w = Weights::basic();
    w.flush = 2;
    w.sync = 2;
    w.reopen = 1;
    w.bulk = 3;
    w.empty_out = *g.rng.pick(&[0u32, 0, 1]);
    let cfg = HistCfg { maps: maps.clone(), alphabet, kd, vd, steps, w, one_bucket: g.rng.chance(1, 5), reopen_params: false, xproc_every: 0, bulk_max: 8 };
    let st = history(&mut g, &cfg);
    let checks = Checks { decode_every: *g.rng.pick(&[1u32, 4, 16]), decode_on_close: true, crash_points: true, ..Default::default() };
    let mut ep = base_episode("C05", name, seed, maps, st, checks);
    ep.buggify = buggify(&mut g, seed);
    vec![ep]
}

pub fn c06(seed: u64, tier: Tier) -> Vec<Episode> {
    let thorough = tier == Tier::Thorough;
    let mut g = Gen::new(seed, thorough);
    let kt = ktype_pick(&mut g.rng);
    let params = if g.rng.chance(1, 2) { small_params(&mut g.rng) } else { pick_params(&mut g.rng, false) };
    let maps = single_map(&mut g.rng, kt, params);
    let cyclic = g.rng.chance(1, 3);
    let mut st: Vec<Step> = Vec::new();
    let name;
    if cyclic {
        name = "cyclic";
        // a fixed update cycle repeated many times: returns to the same logical contents
        let nk = g.rng.range(2, 8) as usize;
        // now and then long keys: large slots exist in the key file too
        let ckd = *g.rng.pick(&[KeyDist::Boundary, KeyDist::Boundary, KeyDist::Mixed]);
        let keys = g.alphabet(kt, nk, ckd, None);
        let lvd = *g.rng.pick(&[ValDist::Mixed, ValDist::Mixed, ValDist::LargeChurn]);
        let lens: Vec<usize> = (0..6).map(|_| g.val_len(lvd)).collect();
        let mut cycle: Vec<(usize, Option<usize>)> = Vec::new();
        for _ in 0..g.rng.range(4, 14) {
            let ki = g.rng.below(keys.len() as u64) as usize;
            if g.rng.chance(1, 3) {
                cycle.push((ki, None));
            } else {
                cycle.push((ki, Some(*g.rng.pick(&lens))));
            }
        }
        // end of cycle: delete everything
        for ki in 0..keys.len() {
            cycle.push((ki, None));
        }
        let reps = if thorough { g.rng.range(50, 500) } else { g.rng.range(8, 60) };
        for _ in 0..reps {
            for (ki, op) in &cycle {
                match op {
                    Some(n) => {
                        let v = g.value_of_len(*n);
                        st.push(Step::Put { h: 0, k: keys[*ki].clone(), v, mode: KeyMode::Ref })
                    }
                    None => st.push(Step::Del { h: 0, k: keys[*ki].clone(), mode: KeyMode::Ref }),
                }
            }
        }
        st.push(Step::Stats { h: 0 });
    } else {
        name = "churn";
        let mut w = Weights::basic();
        w.put = 40;
        w.del = 30;
        w.get = 5;
        w.stats = 3;
        w.bulk = 2;
        w.reopen = 1;
        w.empty_out = *g.rng.pick(&[0u32, 0, 1]);
        let vd = *g.rng.pick(&[ValDist::Mixed, ValDist::Mixed, ValDist::LargeChurn]);
        let kd6 = *g.rng.pick(&[KeyDist::Boundary, KeyDist::Boundary, KeyDist::Mixed, KeyDist::Long]);
        let cfg = HistCfg { maps: maps.clone(), alphabet: g.rng.range(2, 20) as usize, kd: kd6, vd, steps: g.rng.range(10, if vd == ValDist::LargeChurn { 60 } else { 200 }) as usize, w, one_bucket: false, reopen_params: false, xproc_every: 0, bulk_max: 5 };
        st = history(&mut g, &cfg);
        st.push(Step::Stats { h: 0 });
    }
    let checks = Checks { growth_rule: true, post_update: true, decode_on_close: true, accounting: true, decoder_scope: "storage".into(), ..Default::default() };
    let mut ep = base_episode("C06", name, seed, maps, st, checks);
    ep.buggify = buggify(&mut g, seed);
    vec![ep]
}

/// buffer settings including ones small enough to force eviction
fn tight_buf(r: &mut Rng) -> Buf {
    match r.below(10) {
        0..=2 => Buf::Auto,
        3 => Buf::PerMille(1000),
        4..=6 => Buf::Size(*r.pick(&[0u32, 1, 4095, 4096, 8192, 10_000, 65_536, 100_000, 131_071, 131_072, 200_000, 262_143, 262_144, 300_000, 393_216, 524_288, 1_048_576])),
        _ => {
            // log-uniform size up to 2 MiB
            let bits = r.range(3, 21);
            Buf::Size(((1u64 << bits) + r.below(1u64 << bits)) as u32)
        }
    }
}

/// the one region excluded from general generation (DESIGN §6, D6): a PerMille(p<1000) budget
/// on a record file that grows past one 128 KiB chunk.  Probed by exactly this scenario.
pub fn c07_permille_probe(seed: u64, quick: bool) -> Episode {
    let mut g = Gen::new(seed, false);
    let p = *g.rng.pick(&[1u16, 20, 500, 999]);
    // the key-file variant overflows the stack at once; the value-file variant spins until
    // the CPU budget ends the run (thorough tier only, it costs the whole budget)
    let on_key = quick || g.rng.chance(1, 3);
    let params = Params { buckets: Buckets::Size(8), htx: Buf::PerMille(1000), key: if on_key { Buf::PerMille(p) } else { Buf::PerMille(1000) }, val: if on_key { Buf::PerMille(1000) } else { Buf::PerMille(p) } };
    let maps = vec![MapSpec { name: "m".into(), kt: KType::Bytes, params, dir: 0 }];
    let mut st = Vec::new();
    for i in 0..6u64 {
        let tag = g.next_tag();
        if on_key {
            let v = g.value_of_len(3);
            st.push(Step::Put { h: 0, k: Key::G { len: 50_000, tag }, v, mode: KeyMode::Ref });
        } else {
            let v = g.value_of_len(60_000);
            st.push(Step::Put { h: 0, k: Key::U(i).stored_key(), v, mode: KeyMode::Ref });
        }
    }
    st.push(Step::Audit);
    let checks = Checks { model: true, panics: true, ..Default::default() };
    let mut ep = base_episode("C07", "permille-lt-1000-probe", seed, maps, st, checks);
    ep.isolate = true;
    ep
}

pub fn c07(seed: u64, tier: Tier, index: u64) -> Vec<Episode> {
    if (tier == Tier::Quick && index == 3) || (tier == Tier::Thorough && index % 5000 == 3) {
        return vec![c07_permille_probe(seed, tier == Tier::Quick)];
    }
    let thorough = tier == Tier::Thorough;
    let mut g = Gen::new(seed, thorough);
    let kt = ktype_pick(&mut g.rng);
    let mut w = Weights::basic();
    w.reopen = 2;
    w.traverse = 3;
    w.bulk = 2;
    w.flush = 1;
    let vd = *g.rng.pick(&[ValDist::Mixed, ValDist::Pushing, ValDist::Pushing]);
    let name = *g.rng.pick(&map_names());
    let proto = vec![MapSpec { name: name.to_string(), kt, params: Params::default_small(8), dir: 0 }];
    let cfg = HistCfg { maps: proto.clone(), alphabet: g.rng.range(2, 40) as usize, kd: KeyDist::Mixed, vd, steps: g.rng.range(20, 250) as usize, w, one_bucket: false, reopen_params: true, xproc_every: 0, bulk_max: 6 };
    let st = history(&mut g, &cfg);
    let n_cfg = g.rng.range(3, 6) as usize;
    let checks = Checks { model: true, audit_every: 64, audit_traverse: true, iter: true, panics: true, reopen_must_succeed: true, decode_on_close: true, decoder_scope: "contents".into(), ..Default::default() };
    let mut out = Vec::new();
    for c in 0..n_cfg {
        let mut r = Rng::new(mix(&[seed, 0xc07, c as u64]));
        let params = Params {
            buckets: if c == 0 { Buckets::Size(*r.pick(&[1u64, 2, 3, 5, 8])) } else { pick_buckets(&mut r, thorough) },
            htx: if c == 1 { Buf::Auto } else { tight_buf(&mut r) },
            key: if c == 1 { Buf::Auto } else { tight_buf(&mut r) },
            val: if c == 1 { Buf::Auto } else { tight_buf(&mut r) },
        };
        let maps = vec![MapSpec { name: name.to_string(), kt, params, dir: 0 }];
        // the reopen parameters drawn for the prototype are re-drawn per configuration
        let mut steps = st.clone();
        for s in steps.iter_mut() {
            if let Step::Reopen { params, .. } = s {
                *params = Some(vec![Params { buckets: pick_buckets(&mut r, thorough), htx: tight_buf(&mut r), key: tight_buf(&mut r), val: tight_buf(&mut r) }]);
            }
        }
        let mut ep = base_episode("C07", "configurations", seed, maps, steps, checks.clone());
        if r.chance(3, 10) {
            ep.buggify = Some(BuggifyCfg { seed: mix(&[seed, 0xb066, c as u64]), short_write: *r.pick(&[0u32, 30, 150]), short_read: *r.pick(&[0u32, 30, 150]), eintr: *r.pick(&[0u32, 20, 100]), kinds: [r.chance(2, 3), r.chance(2, 3), r.chance(2, 3)] });
        }
        out.push(ep);
    }
    out
}

pub fn c08(seed: u64, tier: Tier) -> Vec<Episode> {
    let thorough = tier == Tier::Thorough;
    let mut g = Gen::new(seed, thorough);
    let kt = bytes_ktype(&mut g.rng);
    let nb = *g.rng.pick(&[1u64, 2, 8, 8, 64, 1024]);
    let params = Params { buckets: Buckets::Size(nb), htx: pick_buf(&mut g.rng, false), key: pick_buf(&mut g.rng, true), val: pick_buf(&mut g.rng, true) };
    let maps = single_map(&mut g.rng, kt, params.clone());
    let real_nb = params.expected_buckets(false);
    let target = g.rng.below(real_nb);
    let nkeys = g.rng.range(2, 6) as usize;
    let keys = g.alphabet(kt, nkeys, KeyDist::Boundary, if real_nb > 1 { Some((real_nb, target)) } else { None });
    let small = [0usize, 1, 13, 14, 15, 21, 22, 29, 30, 45, 46, 61, 62, 125, 126, 253, 254, 1018, 1020, 1500, 3000];
    let mut st: Vec<Step> = Vec::new();
    // phase 1: the chain, small values, below the first offset boundary
    for k in &keys {
        let n = *g.rng.pick(&small[..10]);
        let v = g.value_of_len(n);
        st.push(Step::Put { h: 0, k: k.clone(), v, mode: KeyMode::Ref });
    }
    // phase 2: push .val and/or .key past an offset-width boundary, leaving free slots below it
    let which = g.rng.below(4);
    let filler = Key::B(b"\xffFILLER".to_vec());
    // the slot size of a key record is estimated from the width of the raw offsets (steps at
    // 16 KiB and 2 MiB), the stored fields hold offset/8 (steps at 1 KiB, 128 KiB, 16 MiB)
    let big = match g.rng.below(if thorough { 7 } else { 6 }) {
        0 => 1100usize,
        1 => 16384 - 200 + g.rng.below(400) as usize,
        2 => 16384 + 64,
        3 => 131072 + 64,
        4 => 131072 + 4096,
        5 => 2 * 1024 * 1024 + 100,
        _ => 16 * 1024 * 1024 + 8,
    };
    if which != 3 {
        let v = g.value_of_len(big);
        st.push(Step::Put { h: 0, k: filler.clone(), v, mode: KeyMode::Ref });
    }
    if which >= 2 {
        // a large key record pushes the key file past 1 KiB / 128 KiB
        let klen = *g.rng.pick(&[1000u32, 1100, 60000]);
        let reps = if klen >= 60000 { 3 } else { 1 };
        for i in 0..reps {
            let tag = g.next_tag();
            let v = g.value_of_len(3);
            st.push(Step::Put { h: 0, k: Key::G { len: klen + i * 3000, tag }, v, mode: KeyMode::Ref });
        }
    }
    // phase 3: random overwrite-grow / shrink / delete / re-insert on every chain position
    let n = g.rng.range(6, 60);
    for _ in 0..n {
        let k = keys[g.rng.below(keys.len() as u64) as usize].clone();
        match g.rng.below(10) {
            0..=5 => {
                let n = *g.rng.pick(&small);
                let v = g.value_of_len(n);
                st.push(Step::Put { h: 0, k, v, mode: KeyMode::Ref })
            }
            6..=8 => st.push(Step::Del { h: 0, k, mode: KeyMode::Ref }),
            _ => st.push(Step::Get { h: 0, k, mode: KeyMode::Ref }),
        }
        if g.rng.chance(1, 12) {
            // move the end of file further / free the filler so that low slots get reused
            if g.rng.chance(1, 2) {
                st.push(Step::Del { h: 0, k: filler.clone(), mode: KeyMode::Ref });
            } else {
                let extra = g.rng.below(2000) as usize;
                let v = g.value_of_len(big + extra);
                st.push(Step::Put { h: 0, k: filler.clone(), v, mode: KeyMode::Ref });
            }
        }
    }
    let checks = Checks { model: true, audit_every: 16, post_update: true, panics: true, decode_on_close: true, decoder_scope: "contents".into(), ..Default::default() };
    let mut ep = base_episode("C08", "collision-chain", seed, maps, st, checks);
    ep.buggify = buggify(&mut g, seed);
    vec![ep]
}

/// C09 sweep windows: (is_key_sweep, first length, count)
pub fn c09_windows(thorough: bool) -> Vec<(bool, usize, usize)> {
    let mut v = Vec::new();
    let mut a = 0;
    while a < 4200 {
        v.push((false, a, 100));
        a += 100;
    }
    let mut a = 0;
    while a < 1100 {
        v.push((true, a, 100));
        a += 100;
    }
    for edge in [16384usize, 131072, 1 << 20] {
        v.push((false, edge - 40, 80));
    }
    if thorough {
        for edge in [2097152usize, 16 * 1024 * 1024] {
            v.push((false, edge - 20, 40));
        }
        for edge in [16384usize, 65536] {
            v.push((true, edge - 30, 40));
        }
        for edge in [16384usize, 131072, 1 << 20] {
            v.push((false, edge - 300, 260));
            v.push((false, edge + 40, 260));
        }
    }
    v
}

pub fn c09(seed: u64, tier: Tier, index: u64) -> Vec<Episode> {
    let thorough = tier == Tier::Thorough;
    let mut g = Gen::new(seed, thorough);
    let wins = c09_windows(thorough);
    let (is_key, first, count) = wins[(index as usize) % wins.len()];
    let regime = (index as usize / wins.len()) % 3; // offset-width regime of the files
    let kt = bytes_ktype(&mut g.rng);
    let params = Params { buckets: Buckets::Size(*g.rng.pick(&[1u64, 8, 64])), htx: Buf::PerMille(1000), key: pick_buf(&mut g.rng, true), val: pick_buf(&mut g.rng, true) };
    let maps = single_map(&mut g.rng, kt, params);
    let mut st: Vec<Step> = Vec::new();
    // regime: where in the files the sentinel group lives
    match regime {
        1 => {
            let v = g.value_of_len(2000);
            st.push(Step::Put { h: 0, k: Key::B(b"\xfepad".to_vec()), v, mode: KeyMode::Ref })
        }
        2 => {
            let v = g.value_of_len(140_000);
            st.push(Step::Put { h: 0, k: Key::B(b"\xfepad".to_vec()), v, mode: KeyMode::Ref })
        }
        _ => {}
    }
    let ka = Key::B(b"sentinel-A".to_vec());
    let kb = Key::B(b"sentinel-B".to_vec());
    let la = *g.rng.pick(&[5usize, 14, 30, 200]);
    let lb = *g.rng.pick(&[5usize, 14, 30, 200]);
    let va = g.value_of_len(la);
    let vb = g.value_of_len(lb);
    if is_key {
        let mut kept: Vec<Key> = Vec::new();
        // each key length is its own entry between the sentinels: A, X(len), B
        for len in first..first + count {
            let kx = if len <= 64 { Key::B(crate::rng::payload(0x4b00 + len as u64, len)) } else { Key::G { len: len as u32, tag: 0x4b00 + len as u64 } };
            let vx = g.value_of_len(len % 20);
            st.push(Step::Put { h: 0, k: ka.clone(), v: va.clone(), mode: KeyMode::Ref });
            st.push(Step::Put { h: 0, k: kx.clone(), v: vx, mode: KeyMode::Ref });
            st.push(Step::Put { h: 0, k: kb.clone(), v: vb.clone(), mode: KeyMode::Ref });
            st.push(Step::Get { h: 0, k: kx.clone(), mode: KeyMode::Ref });
            st.push(Step::Get { h: 0, k: ka.clone(), mode: KeyMode::Ref });
            st.push(Step::Get { h: 0, k: kb.clone(), mode: KeyMode::Ref });
            if g.rng.chance(1, 2) {
                st.push(Step::Del { h: 0, k: kx, mode: KeyMode::Ref });
            } else {
                kept.push(kx);
            }
        }
        // relocation phase (round-4 seed C09-R4): the value file grows past an offset-width
        // boundary, then the value of every key that is still stored moves behind it, so that
        // the links inside its key record get wider while the key record stays where it is
        if g.rng.chance(2, 3) {
            let pad = *g.rng.pick(&[17_000usize, 140_000, 140_000, 2_200_000]);
            let v = g.value_of_len(pad);
            st.push(Step::Put { h: 0, k: Key::B(b"\xfepad2".to_vec()), v, mode: KeyMode::Ref });
            for (i, kx) in kept.iter().enumerate() {
                let v = g.value_of_len(100 + i % 7);
                st.push(Step::Put { h: 0, k: kx.clone(), v, mode: KeyMode::Ref });
                st.push(Step::Get { h: 0, k: kx.clone(), mode: KeyMode::Ref });
            }
            st.push(Step::Get { h: 0, k: ka.clone(), mode: KeyMode::Ref });
            st.push(Step::Get { h: 0, k: kb.clone(), mode: KeyMode::Ref });
        }
    } else {
        let kx = Key::B(b"middle-X".to_vec());
        let v0 = g.value_of_len(first);
        st.push(Step::Put { h: 0, k: ka.clone(), v: va, mode: KeyMode::Ref });
        st.push(Step::Put { h: 0, k: kx.clone(), v: v0, mode: KeyMode::Ref });
        st.push(Step::Put { h: 0, k: kb.clone(), v: vb, mode: KeyMode::Ref });
        let order: Vec<usize> = if g.rng.chance(1, 2) { (first..first + count).collect() } else { (first..first + count).rev().collect() };
        for len in order {
            let v = g.value_of_len(len);
            st.push(Step::Put { h: 0, k: kx.clone(), v, mode: KeyMode::Ref });
            st.push(Step::Get { h: 0, k: kx.clone(), mode: KeyMode::Ref });
            // a byte shorter / longer across whatever boundary lies here
            let other = if g.rng.chance(1, 2) { len + 1 } else { len.saturating_sub(1) };
            let v = g.value_of_len(other);
            st.push(Step::Put { h: 0, k: kx.clone(), v, mode: KeyMode::Ref });
            st.push(Step::Get { h: 0, k: kx.clone(), mode: KeyMode::Ref });
            if g.rng.chance(1, 8) {
                st.push(Step::Get { h: 0, k: ka.clone(), mode: KeyMode::Ref });
                st.push(Step::Get { h: 0, k: kb.clone(), mode: KeyMode::Ref });
            }
        }
    }
    st.push(Step::Audit);
    let checks = Checks { model: true, post_update: true, sentinel: true, decode_on_close: true, decoder_scope: "fit".into(), ..Default::default() };
    let mut ep = base_episode("C09", if is_key { "key-length-sweep" } else { "value-length-sweep" }, seed, maps, st, checks);
    ep.buggify = buggify(&mut g, seed);
    vec![ep]
}

pub fn c10(seed: u64, tier: Tier) -> Vec<Episode> {
    let thorough = tier == Tier::Thorough;
    let mut g = Gen::new(seed, thorough);
    let kt = *g.rng.pick(&[KType::U64, KType::U64, KType::I64, KType::I64, KType::Vu64, KType::Vu64, KType::Str, KType::Bytes]);
    let params = if g.rng.chance(1, 2) { small_params(&mut g.rng) } else { pick_params(&mut g.rng, false) };
    let maps = single_map(&mut g.rng, kt, params);
    let mut w = Weights::basic();
    w.traverse = 6;
    w.reopen = 2;
    w.bulk = 3;
    w.put_iter = 2;
    w.strs = 3;
    // now and then values that move records across the offset-width boundaries of the files, so
    // that key records are relocated between two traversals (round-4 seed C10-R4: a stale
    // "offset -> decoded key" cache is only visible to the iterators)
    let vd = *g.rng.pick(&[ValDist::Tiny, ValDist::Tiny, ValDist::Pushing, ValDist::Mixed]);
    let kd = if kt.is_int() { KeyDist::Short } else { *g.rng.pick(&[KeyDist::Short, KeyDist::Short, KeyDist::Mixed]) };
    let steps = if vd == ValDist::Tiny { g.rng.range(10, 150) } else { g.rng.range(10, 70) } as usize;
    let cfg = HistCfg { maps: maps.clone(), alphabet: g.rng.range(2, 60) as usize, kd, vd, steps, w, one_bucket: false, reopen_params: false, xproc_every: if thorough { 1 } else { 0 }, bulk_max: 10 };
    let mut st = history(&mut g, &cfg);
    if kt.is_int() {
        // conversions alone (no I/O): boundary and random integers
        for _ in 0..60 {
            let u = g.int_any();
            st.push(Step::Convert { h: 0, k: if kt == KType::I64 { Key::I(u as i64) } else { Key::U(u) } });
        }
    }
    let checks = Checks { model: true, typed: true, iter: true, audit_traverse: true, audit_every: 50, ..Default::default() };
    let mut ep = base_episode("C10", "typed-keys", seed, maps, st, checks);
    ep.buggify = buggify(&mut g, seed);
    vec![ep]
}

pub fn c11(seed: u64, tier: Tier) -> Vec<Episode> {
    let thorough = tier == Tier::Thorough;
    let mut g = Gen::new(seed, thorough);
    let nm = g.rng.range(2, 5) as usize;
    let names = map_names();
    let mut order: Vec<usize> = (0..names.len()).collect();
    crate::runner::seeded_shuffle(&mut order, &mut g.rng);
    let maps: Vec<MapSpec> = (0..nm)
        .map(|i| MapSpec { name: names[order[i]].to_string(), kt: ktype_pick(&mut g.rng), params: if g.rng.chance(2, 3) { small_params(&mut g.rng) } else { pick_params(&mut g.rng, false) }, dir: 0 })
        .collect();
    let mut w = Weights::basic();
    w.handles = 14;
    w.flush = 3;
    w.sync = 2;
    w.db_sync = 2;
    w.traverse = 3;
    w.iter_steps = 4;
    w.bulk = 2;
    w.reopen = 1;
    let vd = *g.rng.pick(&[ValDist::Tiny, ValDist::Mixed, ValDist::Pushing]);
    let cfg = HistCfg { maps: maps.clone(), alphabet: g.rng.range(2, 16) as usize, kd: KeyDist::Short, vd, steps: g.rng.range(20, 250) as usize, w, one_bucket: false, reopen_params: false, xproc_every: 0, bulk_max: 5 };
    let st = history(&mut g, &cfg);
    let checks = Checks { model: true, isolation: true, file_names: true, audit_every: 40, iter: true, ..Default::default() };
    let mut ep = base_episode("C11", "interleaved-maps", seed, maps, st, checks);
    ep.buggify = buggify(&mut g, seed);
    vec![ep]
}

pub fn c12(seed: u64, tier: Tier, index: u64) -> Vec<Episode> {
    let thorough = tier == Tier::Thorough;
    let mut g = Gen::new(seed, thorough);
    let goldens = crate::golden::list_goldens();
    if goldens.is_empty() || index % 3 == 2 {
        // fresh files written now must follow the documented layout and placement
        let kt = ktype_pick(&mut g.rng);
        let (params, alphabet, kd, vd, steps, _) = update_variant(&mut g, thorough, false);
        let maps = single_map(&mut g.rng, kt, params);
        let mut w = Weights::basic();
        w.reopen = 1;
        w.flush = 2;
        let cfg = HistCfg { maps: maps.clone(), alphabet, kd, vd, steps, w, one_bucket: false, reopen_params: false, xproc_every: 0, bulk_max: 0 };
        let st = history(&mut g, &cfg);
        let checks = Checks { decode_every: 8, decode_on_close: true, ..Default::default() };
        let mut ep = base_episode("C12", "fresh-layout", seed, maps, st, checks);
        ep.buggify = buggify(&mut g, seed);
        return vec![ep];
    }
    let gi = (index / 3 * 2 + index % 3) as usize;
    let name = &goldens[gi % goldens.len()];
    let (meta, _) = match crate::golden::load_golden(name) {
        Some(x) => x,
        None => return vec![],
    };
    let mut spec = meta.map.clone();
    // parameters at open are ignored in favour of what is stored: draw others
    if g.rng.chance(1, 2) {
        spec.params = pick_params(&mut g.rng, false);
    }
    let maps = vec![spec];
    let mut w = Weights::basic();
    w.reopen = 2;
    w.traverse = 3;
    w.flush = 1;
    w.bulk = 1;
    let cfg = HistCfg { maps: maps.clone(), alphabet: g.rng.range(2, 20) as usize, kd: KeyDist::Mixed, vd: ValDist::Mixed, steps: g.rng.range(0, 80) as usize, w, one_bucket: false, reopen_params: true, xproc_every: 0, bulk_max: 4 };
    let mut st = history(&mut g, &cfg);
    // also touch the recorded entries: overwrite / delete some of the golden keys
    let mut extra = Vec::new();
    for (k, _, _) in meta.contents.iter() {
        match g.rng.below(6) {
            0 => extra.push(Step::Del { h: 0, k: k.clone(), mode: KeyMode::Ref }),
            1 => {
                let v = g.value(ValDist::Mixed);
                extra.push(Step::Put { h: 0, k: k.clone(), v, mode: KeyMode::Ref })
            }
            2 => extra.push(Step::Get { h: 0, k: k.clone(), mode: KeyMode::Ref }),
            _ => {}
        }
    }
    let pos = if st.is_empty() { 0 } else { g.rng.below(st.len() as u64) as usize };
    let tail = st.split_off(pos);
    st.extend(extra);
    st.extend(tail);
    let checks = Checks { model: true, audit_every: 32, audit_traverse: true, iter: true, decode_on_close: true, decode_every: 16, panics: true, reopen_must_succeed: true, ..Default::default() };
    let mut ep = base_episode("C12", "golden", seed, maps, st, checks);
    ep.preload = Some(name.clone());
    ep.buggify = buggify(&mut g, seed);
    vec![ep]
}

#[derive(Clone, Debug)]
pub enum C13Case {
    Pair(KType, KType),
    /// the same on a map that was created but never received an entry
    PairEmpty(KType, KType),
    SigByte { kt: KType, file: u8, off: u64, xor: u8 },
    Swap { kt: KType, other: KType, file: u8 },
    /// file(s) (3 = all three) cut to `len` bytes, shorter than the header: with `flip` the first
    /// signature byte is foreign as well and the open is attempted as the creating type;
    /// without it the (still correctly signed) stub is opened as another key type
    Short { kt: KType, as_kt: KType, file: u8, len: u64, flip: bool },
    /// only the bucket table is left (.key/.val removed or emptied); with `flip` its first
    /// signature byte is foreign and the creating type is used for the open
    HtxOnly { kt: KType, as_kt: KType, empty: bool, flip: bool },
}

pub fn c13_cases() -> Vec<C13Case> {
    let mut v = Vec::new();
    for a in ALL_KTYPES {
        for b in ALL_KTYPES {
            v.push(C13Case::Pair(a, b));
        }
    }
    for a in ALL_KTYPES {
        for b in ALL_KTYPES {
            v.push(C13Case::PairEmpty(a, b));
        }
    }
    for (ti, kt) in ALL_KTYPES.iter().enumerate() {
        for file in 0..3u8 {
            for off in 0..16u64 {
                let sig1: &[u8; 8] = match file {
                    0 => crate::decoder::SIG_HTX,
                    1 => crate::decoder::SIG_KEY,
                    _ => crate::decoder::SIG_VAL,
                };
                let cur = if off < 8 { sig1[off as usize] } else { kt.signature()[(off - 8) as usize] };
                let mut xors: Vec<u8> = (0..8).map(|b| 1u8 << b).collect();
                if cur != 0 {
                    xors.push(cur); // -> 0x00
                }
                if cur != 0xff {
                    xors.push(cur ^ 0xff); // -> 0xFF
                }
                if off >= 8 {
                    for o in ALL_KTYPES {
                        let x = o.signature()[(off - 8) as usize] ^ cur;
                        if x != 0 {
                            xors.push(x);
                        }
                    }
                }
                xors.sort_unstable();
                xors.dedup();
                // the type-signature bytes for all five creating types; the fixed signature
                // bytes are the same for every type: enumerated for one type per file
                if off >= 8 || ti == (file as usize) {
                    for x in xors {
                        v.push(C13Case::SigByte { kt: *kt, file, off, xor: x });
                    }
                }
            }
        }
    }
    for a in ALL_KTYPES {
        for b in ALL_KTYPES {
            if a != b {
                for file in 0..3u8 {
                    v.push(C13Case::Swap { kt: a, other: b, file });
                }
            }
        }
    }
    // files shorter than their header (128 bytes .htx, 192 bytes .key/.val)
    for a in ALL_KTYPES {
        for file in 0..4u8 {
            let hdr = if file == 0 { 128u64 } else { 192 };
            for len in [1u64, 7, 8, 9, 15, 16, 17, 100, hdr - 1] {
                v.push(C13Case::Short { kt: a, as_kt: a, file, len, flip: true });
            }
            for b in ALL_KTYPES {
                if a != b {
                    for len in [16u64, 17, 100, hdr - 1] {
                        v.push(C13Case::Short { kt: a, as_kt: b, file, len, flip: false });
                    }
                }
            }
        }
    }
    for a in ALL_KTYPES {
        for empty in [false, true] {
            for b in ALL_KTYPES {
                if a != b {
                    v.push(C13Case::HtxOnly { kt: a, as_kt: b, empty, flip: false });
                }
            }
            v.push(C13Case::HtxOnly { kt: a, as_kt: a, empty, flip: true });
        }
    }
    v
}

pub fn c13(seed: u64, _tier: Tier, index: u64) -> Vec<Episode> {
    let mut g = Gen::new(seed, false);
    let cases = c13_cases();
    let case = cases[(index as usize) % cases.len()].clone();
    fn populate(g: &mut Gen, kt: KType, h: u8, st: &mut Vec<Step>) {
        // now and then the map stays empty (headers only)
        let n = if g.rng.chance(1, 5) { 0 } else { g.rng.range(1, 10) as usize };
        if n == 0 {
            st.push(Step::Len { h });
            return;
        }
        let keys = g.alphabet(kt, n, KeyDist::Short, None);
        for k in keys {
            let v = g.value(ValDist::Tiny);
            st.push(Step::Put { h, k, v, mode: KeyMode::Ref });
        }
    }
    let params = small_params(&mut g.rng);
    let mut st = Vec::new();
    let maps;
    let name;
    match case {
        C13Case::Pair(a, b) => {
            name = "type-pair";
            maps = vec![MapSpec { name: "t".into(), kt: a, params, dir: 0 }];
            populate(&mut g, a, 0, &mut st);
            st.push(Step::ForeignOpen { m: 0, as_kt: b, expect_refused: a != b, swapped_from: None });
            st.push(Step::ForeignOpen { m: 0, as_kt: a, expect_refused: false, swapped_from: None });
        }
        C13Case::PairEmpty(a, b) => {
            name = "type-pair-empty-map";
            maps = vec![MapSpec { name: "t".into(), kt: a, params, dir: 0 }];
            st.push(Step::Len { h: 0 });
            st.push(Step::ForeignOpen { m: 0, as_kt: b, expect_refused: a != b, swapped_from: None });
            st.push(Step::ForeignOpen { m: 0, as_kt: a, expect_refused: false, swapped_from: None });
        }
        C13Case::SigByte { kt, file, off, xor } => {
            name = "signature-byte";
            maps = vec![MapSpec { name: "t".into(), kt, params, dir: 0 }];
            populate(&mut g, kt, 0, &mut st);
            st.push(Step::Corrupt { m: 0, kind: file, off, xor });
            st.push(Step::ForeignOpen { m: 0, as_kt: kt, expect_refused: true, swapped_from: None });
            st.push(Step::Corrupt { m: 0, kind: file, off, xor });
            st.push(Step::ForeignOpen { m: 0, as_kt: kt, expect_refused: false, swapped_from: None });
        }
        C13Case::Short { kt, as_kt, file, len, flip } => {
            name = "short-file";
            maps = vec![MapSpec { name: "t".into(), kt, params, dir: 0 }];
            populate(&mut g, kt, 0, &mut st);
            if flip {
                for f in 0..3u8 {
                    if f == file || file >= 3 {
                        st.push(Step::Corrupt { m: 0, kind: f, off: 0, xor: 0x01 });
                    }
                }
            }
            st.push(Step::Truncate { m: 0, kind: file, len });
            st.push(Step::ForeignOpen { m: 0, as_kt, expect_refused: true, swapped_from: None });
        }
        C13Case::HtxOnly { kt, as_kt, empty, flip } => {
            name = "table-file-only";
            maps = vec![MapSpec { name: "t".into(), kt, params, dir: 0 }];
            populate(&mut g, kt, 0, &mut st);
            if flip {
                st.push(Step::Corrupt { m: 0, kind: 0, off: 0, xor: 0x01 });
            }
            st.push(Step::ForeignOpenHtxOnly { m: 0, as_kt, empty });
        }
        C13Case::Swap { kt, other, file } => {
            name = "swapped-file";
            maps = vec![MapSpec { name: "t".into(), kt, params: params.clone(), dir: 0 }, MapSpec { name: "o".into(), kt: other, params, dir: 0 }];
            populate(&mut g, kt, 0, &mut st);
            populate(&mut g, other, 1, &mut st);
            st.push(Step::SwapFile { m: 0, m2: 1, kind: file });
            st.push(Step::ForeignOpen { m: 0, as_kt: kt, expect_refused: true, swapped_from: Some(other) });
        }
    }
    vec![base_episode("C13", name, seed, maps, st, Checks::default())]
}

pub fn c14(seed: u64, tier: Tier) -> Vec<Episode> {
    let thorough = tier == Tier::Thorough;
    let mut g = Gen::new(seed, thorough);
    let kt = ktype_pick(&mut g.rng);
    let params = if g.rng.chance(1, 2) { small_params(&mut g.rng) } else { pick_params(&mut g.rng, false) };
    let maps = single_map(&mut g.rng, kt, params);
    let mut w = Weights::basic();
    w.put = 15;
    w.get = 8;
    w.del = 8;
    w.bulk = 40;
    w.put_iter = 8;
    w.strs = 12;
    let bulk_max = *g.rng.pick(&[0usize, 3, 20, 200]);
    let vd = *g.rng.pick(&[ValDist::Tiny, ValDist::Boundary]);
    let cfg = HistCfg { maps: maps.clone(), alphabet: g.rng.range(2, 80) as usize, kd: KeyDist::Short, vd, steps: g.rng.range(5, 80) as usize, w, one_bucket: false, reopen_params: false, xproc_every: 0, bulk_max };
    let st = history(&mut g, &cfg);
    let checks = Checks { model: true, model_bulk: true, audit_every: 20, ..Default::default() };
    let mut ep = base_episode("C14", "bulk", seed, maps, st, checks);
    ep.buggify = buggify(&mut g, seed);
    vec![ep]
}

fn readonly_session(g: &mut Gen, maps: &[MapSpec], keys: &[Vec<Key>], n: usize) -> Vec<Step> {
    let mut st = Vec::new();
    for _ in 0..n {
        let m = g.rng.below(maps.len() as u64) as usize;
        let h = m as u8;
        let a = &keys[m];
        let kt = maps[m].kt;
        let pick = |g: &mut Gen| -> Key {
            if !a.is_empty() && g.rng.chance(3, 4) {
                a[g.rng.below(a.len() as u64) as usize].clone()
            } else {
                g.alphabet(kt, 1, KeyDist::Short, None).pop().unwrap()
            }
        };
        match g.rng.below(14) {
            0 | 1 => {
                let k = pick(g);
                st.push(Step::Get { h, k, mode: KeyMode::Ref })
            }
            2 => {
                let k = pick(g);
                st.push(Step::Inc { h, k, mode: KeyMode::Ref })
            }
            3 => st.push(Step::Len { h }),
            4 => st.push(Step::IsEmpty { h }),
            5 => {
                let n = g.rng.below(8);
                let ks = (0..n).map(|_| pick(g)).collect();
                st.push(Step::BulkGet { h, ks });
            }
            6 | 7 => {
                let fl = *g.rng.pick(&ALL_FLAVOURS);
                let stop_after = if g.rng.chance(1, 3) { Some(g.rng.below(3) as u32) } else { None };
                st.push(Step::Traverse { h, fl, stop_after })
            }
            8 => st.push(Step::Stats { h }),
            9 => st.push(Step::ReadFill { h }),
            10 => st.push(Step::Flush { h }),
            11 => st.push(if g.rng.chance(1, 2) { Step::SyncAll { h } } else { Step::SyncData { h } }),
            12 => {
                let k = pick(g);
                st.push(Step::GetStr { h, k })
            }
            _ => st.push(if g.rng.chance(1, 2) { Step::DbSyncAll { d: 0 } } else { Step::IsDirty { h } }),
        }
    }
    st
}

pub fn c15(seed: u64, tier: Tier) -> Vec<Episode> {
    let thorough = tier == Tier::Thorough;
    let mut g = Gen::new(seed, thorough);
    let kt = ktype_pick(&mut g.rng);
    let mut params = pick_params(&mut g.rng, false);
    if g.rng.chance(1, 2) {
        params.buckets = Buckets::Size(*g.rng.pick(&[1u64, 2, 4, 8, 16, 64, 72, 128, 256, 4096]));
    }
    let maps = single_map(&mut g.rng, kt, params);
    let mut w = Weights::basic();
    w.put = 40;
    w.del = 25;
    w.get = 2;
    w.empty_out = *g.rng.pick(&[0u32, 0, 1]);
    let cfg = HistCfg { maps: maps.clone(), alphabet: g.rng.range(1, 60) as usize, kd: KeyDist::Mixed, vd: ValDist::Mixed, steps: g.rng.range(0, 120) as usize, w, one_bucket: false, reopen_params: false, xproc_every: 0, bulk_max: 0 };
    let mut st = history(&mut g, &cfg);
    let live: Vec<Key> = {
        let mut s = std::collections::BTreeSet::new();
        for x in &st {
            match x {
                Step::Put { k, .. } => {
                    s.insert(k.clone());
                }
                Step::Del { k, .. } => {
                    s.remove(k);
                }
                _ => {}
            }
        }
        s.into_iter().collect()
    };
    st.push(Step::CloseSnap { tag: 0 });
    let n = g.rng.range(3, 40) as usize;
    st.extend(readonly_session(&mut g, &maps, &[live], n));
    st.push(Step::Audit);
    st.push(Step::CloseCompare { tag: 0 });
    let checks = Checks { model: true, audit_traverse: true, ..Default::default() };
    let mut ep = base_episode("C15", "readonly-session", seed, maps, st, checks);
    ep.buggify = buggify(&mut g, seed);
    vec![ep]
}

pub fn c16(seed: u64, tier: Tier) -> Vec<Episode> {
    let thorough = tier == Tier::Thorough;
    let mut g = Gen::new(seed, thorough);
    // one map, or several maps of mixed key types so that the database-level calls have to
    // carry the error of a map that is not the last one they visit
    let nm = *g.rng.pick(&[1usize, 1, 2, 3, 4]);
    let names = map_names();
    let mut order: Vec<usize> = (0..names.len()).collect();
    crate::runner::seeded_shuffle(&mut order, &mut g.rng);
    let maps: Vec<MapSpec> = (0..nm)
        .map(|i| MapSpec { name: names[order[i]].to_string(), kt: ktype_pick(&mut g.rng), params: if g.rng.chance(1, 2) { small_params(&mut g.rng) } else { pick_params(&mut g.rng, false) }, dir: 0 })
        .collect();
    let multi = nm > 1;
    let mut w = Weights::basic();
    w.flush = 1;
    let vd = *g.rng.pick(&[ValDist::Boundary, ValDist::Mixed, ValDist::Pushing]);
    let cfg = HistCfg { maps: maps.clone(), alphabet: g.rng.range(2, 20) as usize, kd: KeyDist::Mixed, vd, steps: g.rng.range(3, 60) as usize, w, one_bucket: false, reopen_params: false, xproc_every: 0, bulk_max: 0 };
    let mut st = history(&mut g, &cfg);
    fn sync(g: &mut Gen) -> Step {
        match g.rng.below(5) {
            0 => Step::Flush { h: 0 },
            1 => Step::SyncAll { h: 0 },
            2 => Step::SyncData { h: 0 },
            3 => Step::DbSyncData { d: 0 },
            _ => Step::DbSyncAll { d: 0 },
        }
    }
    // target call (the one that is made to fail in the derived episodes)
    st.push(Step::Nop); // slot for a size cap in derived episodes
    if multi {
        st.push(if g.rng.chance(1, 2) { Step::DbSyncAll { d: 0 } } else { Step::DbSyncData { d: 0 } });
    } else {
        st.push(sync(&mut g));
    }
    st.push(Step::Audit);
    // the application goes on while the condition persists
    let cfg2 = HistCfg { steps: g.rng.range(0, 12) as usize, w: Weights::basic(), ..cfg.clone() };
    st.extend(history(&mut g, &cfg2));
    if g.rng.chance(1, 2) {
        st.push(sync(&mut g)); // possibly a second failed flush
        st.push(Step::Audit);
    }
    st.push(Step::Lift);
    st.push(sync(&mut g));
    st.push(Step::Audit);
    let checks = Checks { model: true, fault_report: true, crash_points: true, sync_trace: true, crash_reopen_every: 1, audit_traverse: true, decoder_scope: "contents".into(), ..Default::default() };
    vec![base_episode("C16", "base", seed, maps, st, checks)]
}

/// further episodes that depend on the outcome of a base run (C16: one per fault point)
pub fn derive(prop: &str, tier: Tier, ep: &Episode, out: &crate::runner::Outcome) -> Vec<Episode> {
    if prop != "C16" || ep.profile != "base" || out.violation.is_some() {
        return vec![];
    }
    let target = match ep.steps.iter().position(|s| matches!(s, Step::Nop)) {
        Some(p) => p as u32 + 1,
        None => return vec![],
    };
    let evs: Vec<&(u32, KOp, String, u64, u64)> = out.sync_events.iter().filter(|e| e.0 == target).collect();
    let mut r = Rng::new(mix(&[ep.seed, 0xc16]));
    let mut out_eps = Vec::new();
    let mut nth: std::collections::BTreeMap<(KOp, String), u32> = std::collections::BTreeMap::new();
    let mut caps_done: std::collections::BTreeSet<(String, u64)> = std::collections::BTreeSet::new();
    let max = if tier == Tier::Thorough { 400 } else { 60 };
    for (_, op, file, off, len) in evs {
        let n = {
            let e = nth.entry((*op, file.clone())).or_insert(0);
            let v = *e;
            *e += 1;
            v
        };
        let errno = *r.pick(&[libc::ENOSPC, libc::EFBIG, libc::EIO, libc::EDQUOT]);
        let mut variants: Vec<(Action, bool)> = Vec::new();
        match op {
            KOp::Write => {
                variants.push((Action::Errno(errno), true));
                variants.push((Action::Errno(errno), false));
                if *len > 1 {
                    let m = *r.pick(&[1u64, *len / 2, *len - 1]);
                    variants.push((Action::ShortThenErrno(m.max(1), errno), r.chance(1, 2)));
                }
            }
            KOp::Fsync | KOp::Fdatasync => variants.push((Action::Errno(*r.pick(&[libc::EIO, libc::ENOSPC])), false)),
            KOp::Ftruncate => variants.push((Action::Errno(errno), true)),
            _ => {}
        }
        for (action, sticky) in variants {
            if out_eps.len() >= max {
                break;
            }
            let mut e = ep.clone();
            e.profile = "fault-point".into();
            e.faults = vec![Directive { step: target, op: *op, nth: n, file: file.clone(), action, sticky, seen: 0, fired: false }];
            out_eps.push(e);
        }
        // RLIMIT_FSIZE formulation: a cap inside / at the start of this write
        if *op == KOp::Write && *len > 0 {
            for cap in [*off, *off + *len / 2, *off + *len - 1] {
                if out_eps.len() < max && caps_done.insert((file.clone(), cap)) {
                    let mut e = ep.clone();
                    e.profile = "size-cap".into();
                    e.steps[target as usize - 1] = Step::Cap { file: file.clone(), cap };
                    out_eps.push(e);
                }
            }
        }
    }
    out_eps
}

pub fn c17(seed: u64, tier: Tier) -> Vec<Episode> {
    let thorough = tier == Tier::Thorough;
    let mut g = Gen::new(seed, thorough);
    let kt = ktype_pick(&mut g.rng);
    let (params, alphabet, kd, _vd, steps, name) = update_variant(&mut g, thorough, false);
    let maps = single_map(&mut g.rng, kt, params);
    let mut w = Weights::basic();
    w.put = 35;
    w.del = 28;
    w.stats = 8;
    w.reopen = 1;
    w.empty_out = *g.rng.pick(&[0u32, 0, 1]);
    let vd17 = *g.rng.pick(&[ValDist::Mixed, ValDist::Mixed, ValDist::Mixed, ValDist::LargeChurn]);
    let cfg = HistCfg { maps: maps.clone(), alphabet, kd, vd: vd17, steps: if vd17 == ValDist::LargeChurn { steps.min(60) } else { steps }, w, one_bucket: g.rng.chance(1, 6), reopen_params: false, xproc_every: 0, bulk_max: 0 };
    let mut st = history(&mut g, &cfg);
    st.push(Step::Stats { h: 0 });
    let checks = Checks { stats: true, ..Default::default() };
    let mut ep = base_episode("C17", name, seed, maps, st, checks);
    ep.buggify = buggify(&mut g, seed);
    vec![ep]
}

pub fn c18(seed: u64, tier: Tier, index: u64) -> Vec<Episode> {
    let thorough = tier == Tier::Thorough;
    let mut g = Gen::new(seed, thorough);
    let nm = *g.rng.pick(&[1usize, 1, 2]);
    let names = map_names();
    let maps: Vec<MapSpec> = (0..nm)
        .map(|i| MapSpec { name: names[i].to_string(), kt: ktype_pick(&mut g.rng), params: if g.rng.chance(1, 2) { small_params(&mut g.rng) } else { pick_params(&mut g.rng, false) }, dir: 0 })
        .collect();
    let mut w = Weights::basic();
    w.get = 25;
    w.inc = 10;
    w.len = 8;
    w.traverse = 8;
    w.stats = 3;
    w.read_fill = 3;
    w.bulk = 4;
    w.flush = 2;
    w.sync = 1;
    w.reopen = 1;
    w.handles = 2;
    let vd = *g.rng.pick(&[ValDist::Boundary, ValDist::Mixed, ValDist::Pushing]);
    let cfg = HistCfg { maps: maps.clone(), alphabet: g.rng.range(2, 30) as usize, kd: KeyDist::Mixed, vd, steps: g.rng.range(10, 200) as usize, w, one_bucket: false, reopen_params: false, xproc_every: 0, bulk_max: 6 };
    let st = history(&mut g, &cfg);
    let mut ep = base_episode("C18", "twice", seed, maps, st, Checks::default());
    ep.buggify = buggify(&mut g, seed);
    let xproc_b = thorough || index % 8 == 0;
    ep.plan = Plan::Twice { poison_a: 0, poison_b: *g.rng.pick(&[0x5au8, 0xa5, 0xff, 0x01]), xproc_b };
    vec![ep]
}

pub fn episodes(prop: &str, tier: Tier, base_seed: u64, index: u64) -> Vec<Episode> {
    let seed = run_seed(prop, base_seed, index);
    match prop {
        "C01" => c01(seed, tier),
        "C02" => c02(seed, tier),
        "C03" => c03(seed, tier),
        "C04" => c04(seed, tier),
        "C05" => c05(seed, tier),
        "C06" => c06(seed, tier),
        "C07" => c07(seed, tier, index),
        "C08" => c08(seed, tier),
        "C09" => c09(seed, tier, index),
        "C10" => c10(seed, tier),
        "C11" => c11(seed, tier),
        "C12" => c12(seed, tier, index),
        "C13" => c13(seed, tier, index),
        "C14" => c14(seed, tier),
        "C15" => c15(seed, tier),
        "C16" => c16(seed, tier),
        "C17" => c17(seed, tier),
        "C18" => c18(seed, tier, index),
        _ => vec![],
    }
}

pub fn rule_text(prop: &str) -> String {
    let common = "evaluation = one seeded episode family executed against the real crate on the simulated kernel; \
distinct_nontrivial = number of distinct (hash of all API results, hash of the complete kernel-call trace) pairs among episodes that ";
    let tail = match prop {
        "C01" => "performed at least one effective update",
        "C02" => "performed an update and at least one close-everything/reopen",
        "C03" => "performed an update and passed at least one flush/sync crash point",
        "C04" => "performed an update and completed or abandoned at least one traversal",
        "C05" => "performed an update and had at least one image decoded",
        "C06" => "performed an update and extended a file or reused/released a free slot under the decoder",
        "C08" => "relocated a record or worked on a collision chain of >= 2 keys",
        "C09" => "compared the bytes of untouched neighbour slots across at least one store",
        "C13" => "attempted at least one foreign / corrupted / matching open (the case list is enumerated completely)",
        "C15" => "completed a read-only session with image comparison",
        "C16" => "had an injected refusal actually fire",
        "C17" => "compared the statistics calls with the decoded image",
        "C18" => "executed the history twice and compared the closed images",
        _ => "performed at least one effective update and hit the property's probe",
    };
    format!("{common}{tail}")
}
