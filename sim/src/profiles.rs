//! Per-property episode families (DESIGN §5).  `episodes(prop, tier, base_seed, index)` is a
//! pure function; the family of run `index` is what one "evaluation" executes.

use crate::gen::*;
use crate::ops::*;
use crate::rng::{mix, str_id, Rng};

#[derive(Clone, Copy, Debug, PartialEq, Eq)]
pub enum Tier {
    Quick,
    Thorough,
}

impl Tier {
    pub fn name(self) -> &'static str {
        match self {
            Tier::Quick => "quick",
            Tier::Thorough => "thorough",
        }
    }
}

pub const ALL_PROPS: [&str; 18] = [
    "C01", "C02", "C03", "C04", "C05", "C06", "C07", "C08", "C09", "C10", "C11", "C12", "C13", "C14", "C15", "C16", "C17", "C18",
];

pub fn run_seed(prop: &str, base_seed: u64, index: u64) -> u64 {
    mix(&[base_seed, str_id(prop), index])
}

/// number of evaluations per tier (wall-clock caps are applied by the coordinator)
pub fn budget(prop: &str, tier: Tier) -> u64 {
    let q = match prop {
        "C01" => 40_000,
        "C02" => 12_000,
        "C03" => 12_000,
        "C04" => 20_000,
        "C05" => 12_000,
        "C06" => 4_000,
        "C07" => 5_000,
        "C08" => 12_000,
        "C09" => 1_500,
        "C10" => 20_000,
        "C11" => 10_000,
        "C12" => 3_000,
        "C13" => 2_000,
        "C14" => 20_000,
        "C15" => 8_000,
        "C16" => 1_500,
        "C17" => 8_000,
        "C18" => 8_000,
        _ => 1000,
    };
    match tier {
        Tier::Quick => q,
        Tier::Thorough => q * 12,
    }
}

fn ktype_pick(r: &mut Rng) -> KType {
    *r.pick(&[KType::Str, KType::Str, KType::Bytes, KType::Bytes, KType::U64, KType::I64, KType::Vu64])
}

fn single_map(r: &mut Rng, kt: KType, params: Params) -> Vec<MapSpec> {
    let name = *r.pick(&map_names());
    vec![MapSpec { name: name.to_string(), kt, params, dir: 0 }]
}

fn base_episode(prop: &str, profile: &str, seed: u64, maps: Vec<MapSpec>, steps: Vec<Step>, checks: Checks) -> Episode {
    Episode { property: prop.to_string(), profile: profile.to_string(), seed, maps, steps, faults: vec![], buggify: None, checks, plan: Plan::Single, poison: 0 }
}

pub fn c01(seed: u64, tier: Tier) -> Vec<Episode> {
    let thorough = tier == Tier::Thorough;
    let mut g = Gen::new(seed, thorough);
    let kt = ktype_pick(&mut g.rng);
    let variant = g.rng.weighted(&[35, 30, 25, 10]);
    let (params, alphabet, kd, vd, steps, name) = match variant {
        0 => {
            let p = Params { buckets: pick_small_buckets(&mut g.rng), htx: pick_buf(&mut g.rng, false), key: pick_buf(&mut g.rng, true), val: pick_buf(&mut g.rng, true) };
            (p, g.rng.range(1, 8) as usize, KeyDist::Boundary, ValDist::Boundary, g.rng.range(10, 120) as usize, "tiny")
        }
        1 => (pick_params(&mut g.rng, false), g.rng.range(2, 40) as usize, KeyDist::Mixed, ValDist::Mixed, g.rng.range(10, 150) as usize, "boundary"),
        2 => {
            let mut p = pick_params(&mut g.rng, false);
            if g.rng.chance(1, 2) {
                p.buckets = pick_small_buckets(&mut g.rng);
            }
            (p, g.rng.range(2, 24) as usize, KeyDist::Boundary, ValDist::Pushing, g.rng.range(30, 200) as usize, "grow-churn")
        }
        _ => {
            let n = if thorough { g.rng.range(2000, 100_000) } else { g.rng.range(500, 4000) };
            (pick_params(&mut g.rng, thorough), g.rng.range(8, 64) as usize, KeyDist::Mixed, ValDist::Mixed, n as usize, "long")
        }
    };
    let maps = single_map(&mut g.rng, kt, params);
    let cfg = HistCfg { maps: maps.clone(), alphabet, kd, vd, steps, w: Weights::basic(), one_bucket: false, reopen_params: false, xproc_every: 0, bulk_max: 0 };
    let st = history(&mut g, &cfg);
    let checks = Checks { model: true, audit_every: 64, panics: true, ..Default::default() };
    let mut ep = base_episode("C01", name, seed, maps, st, checks);
    ep.buggify = buggify(&mut g, seed);
    vec![ep]
}

pub fn episodes(prop: &str, tier: Tier, base_seed: u64, index: u64) -> Vec<Episode> {
    let seed = run_seed(prop, base_seed, index);
    match prop {
        "C01" => c01(seed, tier),
        _ => vec![],
    }
}

/// further episodes that depend on the outcome of a base run (C16: one per fault point)
pub fn derive(_prop: &str, _tier: Tier, _ep: &Episode, _out: &crate::runner::Outcome) -> Vec<Episode> {
    vec![]
}

pub fn rule_text(prop: &str) -> String {
    let common = "evaluation = one seeded episode family executed against the real crate on the simulated kernel; \
distinct_nontrivial = number of distinct (hash of all API results, hash of the complete kernel-call trace) pairs among episodes that ";
    let tail = match prop {
        "C01" => "performed at least one effective update",
        "C02" => "performed an update and at least one close-everything/reopen",
        "C03" => "performed an update and passed at least one flush/sync crash point",
        "C04" => "performed an update and completed or abandoned at least one traversal",
        "C05" => "performed an update and had at least one image decoded",
        "C06" => "performed an update and extended a file or reused/released a free slot under the decoder",
        "C08" => "relocated a record or worked on a collision chain",
        "C13" => "attempted at least one foreign / corrupted / matching open",
        "C15" => "completed a read-only session with image comparison",
        "C16" => "had an injected refusal actually fire",
        "C17" => "compared the statistics calls with the decoded image",
        "C18" => "executed the history twice and compared the closed images",
        _ => "performed at least one effective update and hit the property's probe",
    };
    format!("{common}{tail}")
}
