//! Steps that cross a process boundary: the simulated files are exported to a real scratch
//! directory and a freshly spawned `abysim xproc ...` opens them through the REAL kernel.

use crate::golden::{load_images, save_images, write_real_file};
use crate::handles;
use crate::kernel::{self, Img};
use crate::ops::*;
use crate::runner::*;
use serde_json::{json, Value};
use std::process::{Command, Stdio};

fn tmp_base() -> String {
    std::env::var("ABYSIM_TMP").unwrap_or_else(|_| "/tmp".to_string())
}

fn fnv(b: &[u8]) -> u64 {
    let mut h = 0xcbf2_9ce4_8422_2325u64;
    for x in b {
        h = (h ^ *x as u64).wrapping_mul(0x100_0000_01b3);
    }
    h
}

fn val_repr(v: &[u8]) -> String {
    if v.len() <= 256 {
        hexser::to_hex(v)
    } else {
        format!("#{}:{:016x}", v.len(), fnv(v))
    }
}

/// parent side: export the closed images, let a fresh process read them through the real
/// kernel, compare with the models
pub fn audit_closed_images(w: &mut World) -> StepResult {
    static COUNTER: std::sync::atomic::AtomicU64 = std::sync::atomic::AtomicU64::new(0);
    let n = COUNTER.fetch_add(1, std::sync::atomic::Ordering::Relaxed);
    let dir = format!("{}/abysim.xp.{}.{}", tmp_base(), std::process::id(), n);
    let _ = std::fs::remove_dir_all(&dir);
    if std::fs::create_dir_all(&dir).is_err() {
        return Err(Stop::Inconclusive("xproc: cannot create scratch directory".into()));
    }
    let mut specs = Vec::new();
    let mut idx = Vec::new();
    for m in 0..w.maps.len() {
        if !w.maps[m].created {
            continue;
        }
        if let Some(imgs) = w.images(m) {
            let name = &w.maps[m].spec.name;
            for (i, ext) in ["htx", "key", "val"].iter().enumerate() {
                if write_real_file(&format!("{dir}/{name}.{ext}"), &imgs[i]).is_err() {
                    let _ = std::fs::remove_dir_all(&dir);
                    return Err(Stop::Inconclusive("xproc: cannot export image".into()));
                }
            }
            let mut s = w.maps[m].spec.clone();
            s.params = w.maps[m].params.clone();
            specs.push(s);
            idx.push(m);
        }
    }
    let specfile = format!("{dir}/specs.json");
    std::fs::write(&specfile, serde_json::to_string(&specs).unwrap()).unwrap();
    let out = Command::new(&w.env.exe).args(["xproc", "dump", &dir, &specfile]).stdin(Stdio::null()).stderr(Stdio::piped()).output();
    let _ = std::fs::remove_dir_all(&dir);
    let out = match out {
        Ok(o) => o,
        Err(e) => return Err(Stop::Inconclusive(format!("xproc: spawn failed: {e}"))),
    };
    let text = String::from_utf8_lossy(&out.stdout).to_string();
    let v: Value = match text.lines().rev().find_map(|l| serde_json::from_str::<Value>(l).ok()) {
        Some(v) => v,
        None => {
            let err = String::from_utf8_lossy(&out.stderr);
            return Err(viol("reopen", "xproc:child-failed".into(), w.step_no, format!("a fresh process could not open the closed files through the real kernel: status {:?}, {}", out.status, err.lines().last().unwrap_or(""))));
        }
    };
    w.stats.probe("reopen-in-fresh-process");
    for (j, &m) in idx.iter().enumerate() {
        let got = &v["maps"][j];
        let model = &w.maps[m].model;
        let len = got["len"].as_u64().unwrap_or(u64::MAX);
        if len != model.len() as u64 {
            return Err(viol("reopen", "xproc:len".into(), w.step_no, format!("fresh process: map '{}' len() = {len}, expected {}", w.maps[m].spec.name, model.len())));
        }
        let mut pairs: Vec<(String, String)> = got["pairs"].as_array().map(|a| a.iter().map(|p| (p[0].as_str().unwrap_or("").to_string(), p[1].as_str().unwrap_or("").to_string())).collect()).unwrap_or_default();
        pairs.sort();
        let mut want: Vec<(String, String)> = model.iter().map(|(k, (_, v))| (hexser::to_hex(k), val_repr(v))).collect();
        want.sort();
        if pairs != want {
            return Err(viol("reopen", "xproc:contents".into(), w.step_no, format!("fresh process: iteration of map '{}' yields {} pairs that differ from the state at the drop ({} entries)", w.maps[m].spec.name, pairs.len(), want.len())));
        }
        let gets = got["gets_ok"].as_bool().unwrap_or(false);
        if !gets {
            return Err(viol("reopen", "xproc:get".into(), w.step_no, format!("fresh process: get() of an iterated key of map '{}' did not return its value", w.maps[m].spec.name)));
        }
    }
    Ok(())
}

/// child side of `audit_closed_images`
pub fn dump_main(dir: &str, specfile: &str) -> i32 {
    let specs: Vec<MapSpec> = serde_json::from_str(&std::fs::read_to_string(specfile).expect("specs")).expect("specs json");
    let db = abyssiniandb::open_file(dir).expect("open_file");
    let mut maps = Vec::new();
    for s in &specs {
        let mut h = handles::open_map(&db, &s.name, s.kt, &s.params).expect("open map");
        let len = h.len().expect("len");
        let items: Vec<(Vec<u8>, Vec<u8>)> = h.iter(Flavour::Iter).map(|it| (it.key.unwrap_or_default(), it.val.unwrap_or_default())).collect();
        let mut gets_ok = true;
        for (k, v) in items.iter().take(50) {
            let key = match s.kt {
                KType::Str | KType::Bytes => Key::B(k.clone()),
                KType::U64 => {
                    let mut a = [0u8; 8];
                    a[..k.len().min(8)].copy_from_slice(&k[..k.len().min(8)]);
                    Key::U(u64::from_le_bytes(a))
                }
                KType::I64 => {
                    let mut a = [0u8; 8];
                    a[..k.len().min(8)].copy_from_slice(&k[..k.len().min(8)]);
                    Key::I(i64::from_le_bytes(a))
                }
                KType::Vu64 => {
                    let img = Img::from_bytes(k);
                    Key::U(crate::decoder::vu64_decode(&img, 0).map(|x| x.0).unwrap_or(0))
                }
            };
            if h.get(&key, KeyMode::Ref).ok().flatten().as_ref() != Some(v) {
                gets_ok = false;
            }
        }
        let pairs: Vec<Value> = items.iter().map(|(k, v)| json!([hexser::to_hex(k), val_repr(v)])).collect();
        maps.push(json!({"len": len, "pairs": pairs, "gets_ok": gets_ok}));
    }
    println!("{}", json!({"maps": maps}));
    0
}

/// parent side of the C18 cross-process run B
pub fn run_b_in_child(ep: &Episode, env: &Env) -> Result<(Option<Stop>, Vec<Option<[Img; 3]>>, RunStats), String> {
    static COUNTER: std::sync::atomic::AtomicU64 = std::sync::atomic::AtomicU64::new(0);
    let n = COUNTER.fetch_add(1, std::sync::atomic::Ordering::Relaxed);
    let base = format!("{}/abysim.rb.{}.{}", tmp_base(), std::process::id(), n);
    let _ = std::fs::remove_dir_all(&base);
    std::fs::create_dir_all(&base).map_err(|e| format!("xproc: {e}"))?;
    let epfile = format!("{base}/episode.json");
    std::fs::write(&epfile, serde_json::to_string(ep).unwrap()).map_err(|e| format!("xproc: {e}"))?;
    let out = Command::new(&env.exe).args(["xproc", "runb", &epfile, &base]).stdin(Stdio::null()).stderr(Stdio::null()).output();
    let res = (|| {
        let out = out.map_err(|e| format!("xproc: spawn failed: {e}"))?;
        let text = String::from_utf8_lossy(&out.stdout).to_string();
        let v: Value = text.lines().rev().find_map(|l| serde_json::from_str::<Value>(l).ok()).ok_or_else(|| format!("xproc: run B child died ({:?})", out.status))?;
        let stop = if !v["violation"].is_null() {
            serde_json::from_value::<Violation>(v["violation"].clone()).ok().map(Stop::Violation)
        } else if let Some(s) = v["inconclusive"].as_str() {
            Some(Stop::Inconclusive(s.to_string()))
        } else {
            None
        };
        let nm = v["maps"].as_u64().unwrap_or(0) as usize;
        let mut images = Vec::new();
        for m in 0..nm {
            let p = format!("{base}/map{m}.img");
            images.push(load_images(&p).ok());
        }
        let mut stats = RunStats::default();
        stats.api_calls = v["api_calls"].as_u64().unwrap_or(0);
        stats.steps_done = v["steps"].as_u64().unwrap_or(0);
        stats.probe("run-b-in-fresh-process-real-kernel");
        Ok((stop, images, stats))
    })();
    let _ = std::fs::remove_dir_all(&base);
    res
}

/// child side: execute run B of a Twice episode through the real kernel (trace mode)
pub fn runb_main(epfile: &str, outdir: &str) -> i32 {
    let ep: Episode = serde_json::from_str(&std::fs::read_to_string(epfile).expect("episode")).expect("episode json");
    let root = crate::worker::scratch_root("b");
    kernel::install(&root, kernel::Mode::Trace);
    install_panic_hook();
    let env = Env { root: root.clone(), verbose: false, allow_xproc: false, exe: String::new() };
    let poison = match ep.plan {
        Plan::Twice { poison_b, .. } => poison_b,
        _ => 0,
    };
    crate::worker::arm_cpu_timer(120);
    let r = crate::oracles::run_once(&ep, &env, "e", false, poison);
    crate::worker::arm_cpu_timer(0);
    for (m, im) in r.images.iter().enumerate() {
        if let Some(i) = im {
            let _ = save_images(&format!("{outdir}/map{m}.img"), i);
        }
    }
    let (viol, inc) = match r.stop {
        Some(Stop::Violation(v)) => (Some(v), None),
        Some(Stop::Inconclusive(s)) => (None, Some(s)),
        None => (None, None),
    };
    println!("{}", json!({"violation": viol, "inconclusive": inc, "maps": r.images.len(), "api_calls": r.stats.api_calls, "steps": r.stats.steps_done}));
    let _ = std::fs::remove_dir_all(&root);
    0
}

// ---------------- crash twin: a real process killed at a sync point ----------------

/// child: all steps up to the chosen sync call have returned; report and wait for SIGKILL
pub fn wait_to_be_killed(w: &World) -> ! {
    use std::io::Write;
    println!("{}", json!({"t": "at-sync", "root": w.env.root}));
    let _ = std::io::stdout().flush();
    loop {
        unsafe {
            libc::pause();
        }
    }
}

/// `abysim xproc killrun <episode.json> <step>`
pub fn killrun_main(epfile: &str, step: u32) -> i32 {
    let ep: Episode = serde_json::from_str(&std::fs::read_to_string(epfile).expect("episode")).expect("episode json");
    let root = crate::worker::scratch_root("k");
    kernel::install(&root, kernel::Mode::Trace);
    install_panic_hook();
    let env = Env { root: root.clone(), verbose: false, allow_xproc: false, exe: String::new() };
    crate::worker::arm_cpu_timer(120);
    let mut e2 = ep.clone();
    e2.buggify = None;
    e2.checks = Checks::default();
    let _ = crate::oracles::run_once_until(&e2, &env, "d", false, 0, Some(step));
    // the step was never reached (episode ended earlier)
    println!("{}", json!({"t": "not-reached", "root": root}));
    let _ = std::fs::remove_dir_all(&root);
    0
}

/// parent: pick one crash point, let a real process run to it on the real kernel, SIGKILL it
/// there and compare the files it leaves behind with the simulated kill image
pub fn kill_twin(ep: &Episode, env: &Env, digests: &[(u32, usize, [u64; 3])]) -> Result<bool, Violation> {
    use std::io::{BufRead, BufReader};
    let pick = &digests[(ep.seed % digests.len() as u64) as usize];
    let step = pick.0;
    let base = format!("{}/abysim.kt.{}.{}", tmp_base(), std::process::id(), ep.seed % 100000);
    let _ = std::fs::create_dir_all(&base);
    let epfile = format!("{base}/episode.json");
    if std::fs::write(&epfile, serde_json::to_string(ep).unwrap()).is_err() {
        return Ok(false);
    }
    let child = Command::new(&env.exe).args(["xproc", "killrun", &epfile, &step.to_string()]).stdin(Stdio::null()).stdout(Stdio::piped()).stderr(Stdio::null()).spawn();
    let mut child = match child {
        Ok(c) => c,
        Err(_) => {
            let _ = std::fs::remove_dir_all(&base);
            return Ok(false);
        }
    };
    let mut rd = BufReader::new(child.stdout.take().unwrap());
    let mut line = String::new();
    let _ = rd.read_line(&mut line);
    let v: Value = serde_json::from_str(line.trim()).unwrap_or(Value::Null);
    let root = v["root"].as_str().unwrap_or("").to_string();
    let at_sync = v["t"].as_str() == Some("at-sync");
    // SIGKILL: no destructor, no flush, nothing the process could still do
    unsafe {
        libc::kill(child.id() as i32, libc::SIGKILL);
    }
    let _ = child.wait();
    let mut result = Ok(false);
    if at_sync && !root.is_empty() {
        let mut all_same = true;
        let mut detail = String::new();
        for (s, m, dg) in digests.iter().filter(|d| d.0 == step) {
            let spec = &ep.maps[*m];
            let d = format!("{root}/d{}", spec.dir);
            for (i, ext) in ["htx", "key", "val"].iter().enumerate() {
                let real = crate::golden::img_from_real_file(&format!("{d}/{}.{ext}", spec.name)).map(|im| im.digest()).unwrap_or(0);
                if real != dg[i] {
                    all_same = false;
                    detail = format!("step {s}: file {}.{ext} left behind by the killed process differs from the simulated kill image", spec.name);
                }
            }
        }
        result = if all_same {
            Ok(true)
        } else {
            Err(Violation { class: "crash-twin".into(), signature: "crash-twin:image-differs".into(), step, detail })
        };
    }
    if !root.is_empty() {
        let _ = std::fs::remove_dir_all(&root);
    }
    let _ = std::fs::remove_dir_all(&base);
    result
}
