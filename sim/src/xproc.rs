//! Steps that cross a process boundary: the simulated files are exported to a real scratch
//! directory and a freshly spawned `abysim xproc ...` opens them through the real kernel.

use crate::kernel::Img;
use crate::ops::*;
use crate::runner::*;

pub fn audit_closed_images(_w: &mut World) -> StepResult {
    Ok(())
}

pub fn run_b_in_child(_ep: &Episode, _env: &Env) -> Result<(Option<Stop>, Vec<Option<[Img; 3]>>, RunStats), String> {
    Err("xproc not available".into())
}
