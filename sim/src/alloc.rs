//! Global allocator that can fill fresh memory with a per-run pattern ("poisoned
//! allocator" fault kind): uninitialised bytes that leak into a file differ between runs.
//! `alloc_zeroed` still zeroes.

use std::alloc::{GlobalAlloc, Layout, System};
use std::sync::atomic::{AtomicU8, Ordering};

static POISON: AtomicU8 = AtomicU8::new(0);

pub fn set_poison(b: u8) {
    POISON.store(b, Ordering::Relaxed);
}

pub struct Poisoning;

unsafe impl GlobalAlloc for Poisoning {
    unsafe fn alloc(&self, l: Layout) -> *mut u8 {
        let p = System.alloc(l);
        let b = POISON.load(Ordering::Relaxed);
        if b != 0 && !p.is_null() {
            std::ptr::write_bytes(p, b, l.size());
        }
        p
    }
    unsafe fn dealloc(&self, p: *mut u8, l: Layout) {
        System.dealloc(p, l)
    }
    unsafe fn alloc_zeroed(&self, l: Layout) -> *mut u8 {
        System.alloc_zeroed(l)
    }
    unsafe fn realloc(&self, p: *mut u8, l: Layout, new_size: usize) -> *mut u8 {
        let q = System.realloc(p, l, new_size);
        let b = POISON.load(Ordering::Relaxed);
        if b != 0 && !q.is_null() && new_size > l.size() {
            std::ptr::write_bytes(q.add(l.size()), b, new_size - l.size());
        }
        q
    }
}
