//! Own PRNG: splitmix64 seeding -> xoshiro256**. No dependency, no global state.
//! Every random decision of a run comes from streams derived from one integer.

#[derive(Clone, Debug)]
pub struct Rng {
    s: [u64; 4],
}

#[inline]
pub fn splitmix64(x: &mut u64) -> u64 {
    *x = x.wrapping_add(0x9E37_79B9_7F4A_7C15);
    let mut z = *x;
    z = (z ^ (z >> 30)).wrapping_mul(0xBF58_476D_1CE4_E5B9);
    z = (z ^ (z >> 27)).wrapping_mul(0x94D0_49BB_1331_11EB);
    z ^ (z >> 31)
}

/// Mix several integers into one seed (order dependent).
pub fn mix(parts: &[u64]) -> u64 {
    let mut h = 0x243F_6A88_85A3_08D3u64;
    for &p in parts {
        let mut x = h ^ p.wrapping_mul(0x9E37_79B9_7F4A_7C15);
        h = splitmix64(&mut x).rotate_left(17) ^ p;
        let mut y = h;
        h = splitmix64(&mut y);
    }
    h
}

pub fn str_id(s: &str) -> u64 {
    // FNV-1a
    let mut h = 0xcbf2_9ce4_8422_2325u64;
    for b in s.bytes() {
        h ^= b as u64;
        h = h.wrapping_mul(0x100_0000_01b3);
    }
    h
}

impl Rng {
    pub fn new(seed: u64) -> Rng {
        let mut x = seed;
        let s = [
            splitmix64(&mut x),
            splitmix64(&mut x),
            splitmix64(&mut x),
            splitmix64(&mut x),
        ];
        Rng { s }
    }
    /// Independent stream `name` of a parent seed.
    pub fn stream(seed: u64, name: &str) -> Rng {
        Rng::new(mix(&[seed, str_id(name)]))
    }
    #[inline]
    pub fn next(&mut self) -> u64 {
        let r = self.s[1].wrapping_mul(5).rotate_left(7).wrapping_mul(9);
        let t = self.s[1] << 17;
        self.s[2] ^= self.s[0];
        self.s[3] ^= self.s[1];
        self.s[1] ^= self.s[2];
        self.s[0] ^= self.s[3];
        self.s[2] ^= t;
        self.s[3] = self.s[3].rotate_left(45);
        r
    }
    /// uniform in 0..n (n>0)
    #[inline]
    pub fn below(&mut self, n: u64) -> u64 {
        debug_assert!(n > 0);
        // multiply-shift; bias is irrelevant here
        ((self.next() as u128 * n as u128) >> 64) as u64
    }
    #[inline]
    pub fn range(&mut self, lo: u64, hi_incl: u64) -> u64 {
        lo + self.below(hi_incl - lo + 1)
    }
    #[inline]
    pub fn chance(&mut self, num: u64, den: u64) -> bool {
        self.below(den) < num
    }
    #[inline]
    pub fn pick<'a, T>(&mut self, xs: &'a [T]) -> &'a T {
        &xs[self.below(xs.len() as u64) as usize]
    }
    /// weighted choice: returns index
    pub fn weighted(&mut self, w: &[u32]) -> usize {
        let total: u64 = w.iter().map(|&x| x as u64).sum();
        let mut r = self.below(total.max(1));
        for (i, &x) in w.iter().enumerate() {
            if r < x as u64 {
                return i;
            }
            r -= x as u64;
        }
        w.len() - 1
    }
    pub fn fill(&mut self, buf: &mut [u8]) {
        for ch in buf.chunks_mut(8) {
            let v = self.next().to_le_bytes();
            ch.copy_from_slice(&v[..ch.len()]);
        }
    }
}

/// Deterministic payload of a given length from a tag (used for big keys / values so that
/// replay files stay small). First bytes carry the tag so that values are unique per write.
pub fn payload(tag: u64, len: usize) -> Vec<u8> {
    let mut v = vec![0u8; len];
    let mut r = Rng::new(mix(&[tag, len as u64, 0x7061_796c]));
    r.fill(&mut v);
    let t = tag.to_le_bytes();
    let n = len.min(8);
    v[..n].copy_from_slice(&t[..n]);
    v
}
