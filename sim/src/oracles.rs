//! Image-based oracles (decoder, crash points, growth rule, statistics, isolation) and the
//! episode driver.

use crate::alloc;
use crate::decoder::{self, Decoded, CLASSES};
use crate::handles::{self, DynMap};
use crate::kernel::{self, Buggify, Img, KOp};
use crate::ops::*;
use crate::rng::Rng;
use crate::runner::*;
use std::collections::{BTreeMap, BTreeSet};
use std::io;

/// first statistics figure that differs from the figures recomputed from a decoded image
pub fn stats_diff(st: &crate::handles::Stats, d: &Decoded) -> Option<(&'static str, String, String)> {
    let hist = |it: &mut dyn Iterator<Item = u64>| -> Vec<(u64, u64)> {
        let mut h: BTreeMap<u64, u64> = BTreeMap::new();
        for x in it {
            *h.entry(x).or_insert(0) += 1;
        }
        h.into_iter().collect()
    };
    let fk: Vec<(u32, u64)> = (0..16).map(|i| (CLASSES[i], d.key_free[i].len() as u64)).collect();
    let fv: Vec<(u32, u64)> = (0..16).map(|i| (CLASSES[i], d.val_free[i].len() as u64)).collect();
    let kps = hist(&mut d.keys.iter().filter(|k| !k.key.is_empty()).map(|k| k.size as u64));
    let kls = hist(&mut d.keys.iter().filter(|k| !k.key.is_empty()).map(|k| k.key.len() as u64));
    let vps = hist(&mut d.vals.values().filter(|v| v.len > 0).map(|v| v.size as u64));
    let vls = hist(&mut d.vals.values().filter(|v| v.len > 0).map(|v| v.len as u64));
    let fill = (d.nonempty_buckets, (d.nonempty_buckets * 1000 / d.buckets) as u32);
    let pairs: [(&'static str, String, String); 7] = [
        ("count_of_free_key_piece", format!("{:?}", st.free_key), format!("{:?}", fk)),
        ("count_of_free_value_piece", format!("{:?}", st.free_val), format!("{:?}", fv)),
        ("key_piece_size_stats", format!("{:?}", st.key_piece_sizes), format!("{:?}", kps)),
        ("key_length_stats", format!("{:?}", st.key_lengths), format!("{:?}", kls)),
        ("value_piece_size_stats", format!("{:?}", st.val_piece_sizes), format!("{:?}", vps)),
        ("value_length_stats", format!("{:?}", st.val_lengths), format!("{:?}", vls)),
        ("htx_filling_rate_per_mill", format!("{:?}", st.filling), format!("{:?}", fill)),
    ];
    pairs.into_iter().find(|(_, g, w)| g != w)
}

/// does a decoder finding of class `class` concern a property whose decoder scope is `scope`?
pub fn class_in_scope(scope: &str, class: &str) -> bool {
    let contents = ["contents", "bad-header", "bad-signature", "type-signature", "files-missing", "bucket-count-changed"];
    let storage = ["slot-walk", "slot-size", "free-not-slot", "free-format", "free-cycle", "live-and-free", "record-exceeds-slot", "orphan-slot", "free-wrong-class", "free-double", "files-missing"];
    let not_fit = ["bitmap-missing", "count-mismatch", "wrong-bucket", "duplicate-key", "chain-cycle", "bucket-count-changed", "type-signature", "orphan-slot", "free-wrong-class", "free-double"];
    match scope {
        "contents" => contents.contains(&class),
        "storage" => storage.contains(&class),
        "fit" => !not_fit.contains(&class),
        _ => true,
    }
}

fn refusal_in_step() -> Option<String> {
    kernel::with(|k| {
        k.step_events
            .iter()
            .find(|e| {
                e.ret < 0
                    && -e.ret != libc::EINTR as i64
                    && matches!(e.op, KOp::Write | KOp::Ftruncate | KOp::Fsync | KOp::Fdatasync)
                    && !k.inodes[e.ino as usize].path.contains("/x0/")
            })
            .map(|e| {
                format!(
                    "{} on {} failed with errno {}",
                    kernel::KOP_NAMES[e.op as usize],
                    k.inodes[e.ino as usize].path.rsplit('/').next().unwrap_or(""),
                    -e.ret
                )
            })
    })
}

impl<'a> World<'a> {
    /// decode the current written images of map m and compare with the model
    pub fn decode_and_compare(&mut self, m: usize, when: &str) -> Result<Decoded, Stop> {
        let class = if when == "crash" { "crash-image" } else { "decoder" };
        let imgs = match self.images(m) {
            Some(i) => i,
            None => {
                return Err(viol(class, "files-missing".into(), self.step_no, format!("map '{}': files do not exist at {when}", self.maps[m].spec.name)));
            }
        };
        self.stats.decodes += 1;
        let scope = self.ep.checks.decoder_scope.clone();
        let d = match decoder::decode(&imgs[0], &imgs[1], &imgs[2]) {
            Ok(d) => d,
            Err(b) => {
                if !class_in_scope(&scope, b.class) {
                    return Err(Stop::Inconclusive(format!("out-of-scope: decoder finding '{}' does not concern this property ({})", b.class, b.detail)));
                }
                return Err(viol(class, b.class.to_string(), self.step_no, format!("map '{}' at {when}: {}", self.maps[m].spec.name, b.detail)));
            }
        };
        if let Some(b) = d.accounting.first() {
            if self.ep.checks.accounting && class_in_scope(&scope, b.class) {
                return Err(viol(class, b.class.to_string(), self.step_no, format!("map '{}' at {when}: {}", self.maps[m].spec.name, b.detail)));
            }
            self.stats.probe("accounting-inconsistency-seen-not-this-property");
        }
        let kt = self.maps[m].spec.kt;
        if d.sig2 != kt.signature() && class_in_scope(&scope, "type-signature") {
            return Err(viol(class, "type-signature".into(), self.step_no, format!("map '{}' at {when}: type signature {:02x?}, documented {:02x?}", self.maps[m].spec.name, d.sig2, kt.signature())));
        }
        {
            let model = &self.maps[m].model;
            let same = d.map.len() == model.len() && d.map.iter().zip(model.iter()).all(|((k1, v1), (k2, (_, v2)))| k1 == k2 && v1 == v2);
            if !same {
                let mut detail = format!("decoded image holds {} entries, ideal map {}", d.map.len(), model.len());
                for (k, (_, v)) in model.iter() {
                    match d.map.get(k) {
                        None => {
                            detail.push_str(&format!("; key [{}]{} missing from the files", k.len(), hexser::to_hex(&k[..k.len().min(12)])));
                            break;
                        }
                        Some(dv) if dv != v => {
                            detail.push_str(&format!("; key [{}]{} has a different value on disk (len {} vs {})", k.len(), hexser::to_hex(&k[..k.len().min(12)]), dv.len(), v.len()));
                            break;
                        }
                        _ => {}
                    }
                }
                for k in d.map.keys() {
                    if !model.contains_key(k) {
                        detail.push_str(&format!("; files hold key [{}]{} which is not live", k.len(), hexser::to_hex(&k[..k.len().min(12)])));
                        break;
                    }
                }
                return Err(viol(class, "contents".into(), self.step_no, format!("map '{}' at {when}: {detail}", self.maps[m].spec.name)));
            }
        }
        match self.maps[m].buckets {
            None => self.maps[m].buckets = Some(d.buckets),
            Some(b) if b != d.buckets && class_in_scope(&scope, "bucket-count-changed") => {
                return Err(viol(class, "bucket-count-changed".into(), self.step_no, format!("map '{}': stored bucket count changed {} -> {}", self.maps[m].spec.name, b, d.buckets)));
            }
            _ => {}
        }
        // reach probes, all computed from the image
        self.stats.state_sigs.insert(decoder::shape_signature(&d));
        if d.max_chain >= 3 {
            self.stats.probe("chain>=3");
        }
        // offsets are stored divided by 8: the encoded width changes at 1 KiB, 128 KiB, 16 MiB
        if d.key_len > 1024 {
            self.stats.probe("key-file>1KiB");
        }
        if d.val_len > 1024 {
            self.stats.probe("val-file>1KiB");
        }
        if d.key_len > 16 * 1024 {
            self.stats.probe("key-file>16KiB");
        }
        if d.val_len > 16 * 1024 {
            self.stats.probe("val-file>16KiB");
        }
        if d.val_len > 2 * 1024 * 1024 {
            self.stats.probe("val-file>2MiB");
        }
        if d.key_len > 128 * 1024 {
            self.stats.probe("key-file>128KiB");
        }
        if d.val_len > 128 * 1024 {
            self.stats.probe("val-file>128KiB");
        }
        if d.val_len > 16 * 1024 * 1024 {
            self.stats.probe("val-file>16MiB");
        }
        if d.max_chain >= 2 {
            self.stats.probe("chain>=2");
        }
        if d.count == 0 && (d.key_slots.len() + d.val_slots.len()) > 0 {
            self.stats.probe("map-emptied-again");
        }
        if d.key_free.iter().any(|l| !l.is_empty()) || d.val_free.iter().any(|l| !l.is_empty()) {
            self.stats.probe("free-list-nonempty");
        }
        if d.val_free[15].len() >= 2 || d.key_free[15].len() >= 2 {
            self.stats.probe("large-free-list>=2");
        }
        if d.map.contains_key(&Vec::new()) {
            self.stats.probe("empty-key-stored");
        }
        if d.map.values().any(|v| v.is_empty()) {
            self.stats.probe("empty-value-stored");
        }
        if d.nonzero_padding > 0 {
            self.stats.probe("nonzero-padding");
        }
        Ok(d)
    }

    /// A decode after the oracle's own flush() failed.  If the files are fine once every handle
    /// is dropped, the flush simply did not write (a durability matter, property C03) and the
    /// check at hand cannot decide its own property on this run.
    fn blame_flush(&mut self, m: usize, v: Violation) -> Stop {
        let saved_step = self.step_no;
        if self.close_all().is_err() {
            return Stop::Violation(v);
        }
        let r = self.decode_and_compare(m, "close");
        self.step_no = saved_step;
        match r {
            Ok(_) => Stop::Inconclusive(format!("flush() did not bring the files up to date, closing did ({}); durability is property C03", v.signature)),
            Err(_) => Stop::Violation(v),
        }
    }

    /// A growth-rule / class-bound finding is only meaningful if the oracle's flush() really
    /// brought the files up to date: if dropping every handle still changes the files, the
    /// flush was incomplete (a durability matter, property C03) and the run is inconclusive.
    fn blame_flush_growth(&mut self, m: usize, v: Violation) -> Stop {
        let before = self.images(m).map(|i| [i[0].digest(), i[1].digest(), i[2].digest()]);
        if self.close_all().is_err() {
            return Stop::Violation(v);
        }
        let after = self.images(m).map(|i| [i[0].digest(), i[1].digest(), i[2].digest()]);
        if before != after {
            Stop::Inconclusive(format!("flush() had not brought the files up to date ({}); durability is property C03", v.signature))
        } else {
            Stop::Violation(v)
        }
    }

    fn flush_quiet(&mut self, hd: &mut dyn DynMap) -> StepResult {
        let r = self.call("flush", |_| hd.flush())?;
        match r {
            Ok(()) => Ok(()),
            Err(e) => Err(Stop::Inconclusive(format!("oracle flush failed: {e}"))),
        }
    }

    // ---------------- flush / sync points ----------------

    pub fn after_sync(&mut self, name: &str, r: io::Result<()>, ms: Vec<usize>, hd: &mut dyn DynMap) -> StepResult {
        if self.ep.checks.fault_report {
            let step = self.step_no;
            let evs: Vec<(u32, KOp, String, u64, u64)> = kernel::with(|k| {
                k.step_events
                    .iter()
                    .filter(|e| matches!(e.op, KOp::Write | KOp::Fsync | KOp::Fdatasync | KOp::Ftruncate))
                    .map(|e| (step, e.op, k.inodes[e.ino as usize].path.rsplit('/').next().unwrap_or("").to_string(), e.off, e.len))
                    .collect()
            });
            self.sync_events.extend(evs);
        }
        let refusal = refusal_in_step();
        match (&r, &refusal) {
            (Err(e), Some(_)) => {
                self.stats.probe("flush-error-reported");
                self.faulted = true;
                if self.ep.checks.fault_report && self.ep.checks.model {
                    // the in-memory view must stay fully correct
                    let m = ms[0];
                    if let Err(Stop::Violation(v)) = self.audit_with(m, hd) {
                        return Err(viol("fault", format!("view-after-failed-{name}"), self.step_no, format!("after {name} failed with '{e}': {}", v.detail)));
                    }
                }
                return Ok(());
            }
            (Ok(()), Some(what)) => {
                if self.ep.checks.fault_report {
                    return Err(viol("fault", format!("swallowed:{name}"), self.step_no, format!("{name} returned Ok although {what}")));
                }
                return Ok(());
            }
            (Err(_), None) => {
                let rr = r;
                self.ok(name, rr)?;
                return Ok(());
            }
            (Ok(()), None) => {}
        }
        self.sync_point(name, ms)
    }

    pub fn after_db_sync(&mut self, name: &str, r: io::Result<()>, ms: Vec<usize>) -> StepResult {
        if self.ep.checks.fault_report {
            let step = self.step_no;
            let evs: Vec<(u32, KOp, String, u64, u64)> = kernel::with(|k| {
                k.step_events
                    .iter()
                    .filter(|e| matches!(e.op, KOp::Write | KOp::Fsync | KOp::Fdatasync | KOp::Ftruncate))
                    .map(|e| (step, e.op, k.inodes[e.ino as usize].path.rsplit('/').next().unwrap_or("").to_string(), e.off, e.len))
                    .collect()
            });
            self.sync_events.extend(evs);
        }
        let refusal = refusal_in_step();
        match (&r, &refusal) {
            (Err(_), Some(_)) => {
                self.stats.probe("flush-error-reported");
                self.faulted = true;
                return Ok(());
            }
            (Ok(()), Some(what)) => {
                if self.ep.checks.fault_report {
                    return Err(viol("fault", format!("swallowed:{name}"), self.step_no, format!("{name} returned Ok although {what}")));
                }
                return Ok(());
            }
            (Err(_), None) => {
                self.ok(name, r)?;
                return Ok(());
            }
            (Ok(()), None) => {}
        }
        self.sync_point(name, ms)
    }

    /// a flush/sync returned Ok with no fault in flight: this is a crash point
    fn sync_point(&mut self, name: &str, ms: Vec<usize>) -> StepResult {
        if !self.ep.checks.crash_points {
            return Ok(());
        }
        // faults armed earlier and not lifted make the promise void only while they last
        if kernel::with(|k| !k.caps.is_empty() || k.inodes.iter().any(|i| i.refuse.is_some())) {
            return Ok(());
        }
        for m in ms {
            if !self.maps[m].created {
                continue;
            }
            self.stats.crash_points += 1;
            if self.ep.checks.kill_twin {
                if let Some(im) = self.images(m) {
                    self.crash_digests.push((self.step_no, m, [im[0].digest(), im[1].digest(), im[2].digest()]));
                }
            }
            // (1) kill image = what the kernel has accepted
            let mut force_reopen = false;
            match self.decode_and_compare(m, "crash") {
                Ok(d) => {
                    if d.count == 0 && self.maps[m].model.is_empty() {
                        self.stats.probe("crash-point-on-empty-map");
                    }
                }
                // a structural oddity that is not this property's: the real crate decides by
                // opening the copy
                Err(Stop::Inconclusive(s)) if s.starts_with("out-of-scope:") => force_reopen = true,
                Err(e) => return Err(e),
            }
            // (2) sync variants: durable == written and the sync request was really issued
            if self.ep.checks.sync_trace && name != "flush" {
                let paths = self.file_paths(m);
                let want_fsync = name.ends_with("sync_all");
                let problem = kernel::with(|k| {
                    for p in paths.iter() {
                        let f = match k.file(p) {
                            Some(f) => f,
                            None => return Some(format!("{p} does not exist")),
                        };
                        let short = p.rsplit('/').next().unwrap_or("");
                        if f.durable != f.written {
                            return Some(format!("{short}: bytes accepted by the kernel are not durable (no OS sync after the last write; last write seq {}, last sync seq {})", f.last_mod_seq, f.last_sync_seq));
                        }
                        if f.last_sync_seq < f.last_mod_seq {
                            return Some(format!("{short}: last OS sync request precedes the last write"));
                        }
                    }
                    // (which of fsync / fdatasync is used is not part of the property: not checked)
                    let _ = want_fsync;
                    None
                });
                if let Some(p) = problem {
                    return Err(viol("sync-trace", format!("{name}"), self.step_no, format!("{name} returned Ok on map '{}' but {p}", self.maps[m].spec.name)));
                }
                self.stats.probe("powerloss-image-checked");
            }
            // (3) the real crate opens the image and passes the audit
            let every = self.ep.checks.crash_reopen_every;
            if force_reopen || (every > 0 && self.stats.crash_points % every as u64 == 0) {
                self.crash_reopen(m)?;
            }
        }
        Ok(())
    }

    /// copy the written image of map m into the scratch directory x0, open it with the real
    /// crate, audit against the model
    pub fn crash_reopen(&mut self, m: usize) -> StepResult {
        let imgs = self.images(m).unwrap();
        let spec = self.maps[m].spec.clone();
        let xdir = format!("{}/x0", self.env.root);
        let names = [format!("{xdir}/{}.htx", spec.name), format!("{xdir}/{}.key", spec.name), format!("{xdir}/{}.val", spec.name)];
        kernel::with(|k| {
            for (i, n) in names.iter().enumerate() {
                k.install_file(n, imgs[i].clone());
            }
        });
        self.stats.crash_reopens += 1;
        let params = self.maps[m].params.clone();
        let res: StepResult = (|| {
            let r = self.call("open_file", |_| abyssiniandb::open_file(&xdir))?;
            let db = self.ok("open_file", r)?;
            let r = self.call("db_map", |_| handles::open_map(&db, &spec.name, spec.kt, &params))?;
            let mut hd = self.ok("db_map", r)?;
            self.audit_with(m, &mut *hd)?;
            self.call("drop", |_| {
                drop(hd);
                drop(db);
            })?;
            Ok(())
        })();
        kernel::with(|k| {
            for n in names.iter() {
                k.remove_file(n);
            }
        });
        match res {
            Ok(()) => Ok(()),
            Err(Stop::Violation(v)) => Err(viol("crash-image", format!("reopen:{}", v.signature), self.step_no, format!("directory copy taken when the call returned Ok, reopened: {}", v.detail))),
            Err(Stop::Inconclusive(s)) => Err(viol("crash-image", format!("reopen-failed:{}", normalise(&s)), self.step_no, format!("directory copy taken when the call returned Ok does not open: {s}"))),
        }
    }

    // ---------------- growth rule / conservation (C06) ----------------

    pub fn post_update_check(&mut self, m: usize, hd: &mut dyn DynMap, single_key: bool, affected: Option<Vec<u8>>) -> StepResult {
        self.flush_quiet(hd)?;
        let d = match self.decode_and_compare(m, "update") {
            Ok(d) => d,
            Err(Stop::Violation(v)) => {
                // the handle in use is outside its slot during this call: put it back by
                // dropping it here is not possible, so only blame the flush when closing works
                return Err(Stop::Violation(Violation { detail: format!("{} [after the oracle's flush]", v.detail), ..v }));
            }
            Err(e) => return Err(e),
        };
        let imgs = self.images(m);
        // ---- relocation probes and neighbour bytes (pre vs. post)
        if let (Some(pre), Some(pre_imgs), Some(post_imgs)) = (self.maps[m].last.as_ref(), self.maps[m].last_imgs.as_ref(), imgs.as_ref()) {
            let pre_by_key: BTreeMap<&[u8], &decoder::KeyRec> = pre.keys.iter().map(|k| (k.key.as_slice(), k)).collect();
            let mut moved_keys = 0u64;
            let mut moved_vals = 0u64;
            let mut compared = 0u64;
            let mut problem: Option<String> = None;
            for k in &d.keys {
                if let Some(p) = pre_by_key.get(k.key.as_slice()) {
                    let is_affected = affected.as_deref() == Some(k.key.as_slice());
                    if p.off != k.off {
                        moved_keys += 1;
                    }
                    if p.val_off != k.val_off {
                        moved_vals += 1;
                    }
                    if self.ep.checks.sentinel && !is_affected && problem.is_none() {
                        // an entry that was not touched keeps the bytes of its value slot, and
                        // of its key slot when none of its fields changed
                        if p.val_off == k.val_off {
                            let vs = d.vals[&k.val_off].size as usize;
                            if pre.vals.get(&p.val_off).map(|v| v.size as usize) == Some(vs) {
                                compared += 1;
                                if pre_imgs[2].get(p.val_off, vs) != post_imgs[2].get(k.val_off, vs) {
                                    problem = Some(format!("value slot at {} of untouched key [{}]{} changed", k.val_off, k.key.len(), hexser::to_hex(&k.key[..k.key.len().min(12)])));
                                }
                            }
                        }
                        if p.off == k.off && p.size == k.size && p.val_off == k.val_off && p.next == k.next {
                            if pre_imgs[1].get(p.off, p.size as usize) != post_imgs[1].get(k.off, k.size as usize) {
                                problem = Some(format!("key slot at {} of untouched key [{}]{} changed", k.off, k.key.len(), hexser::to_hex(&k.key[..k.key.len().min(12)])));
                            }
                        }
                    }
                }
            }
            if let Some(p) = problem {
                return Err(viol("neighbour", "bytes-changed".into(), self.step_no, format!("storing one entry altered another: {p}")));
            }
            if compared > 0 {
                self.stats.probe("sentinel-neighbours-compared");
            }
            self.stats.probe_n("key-record-relocated", moved_keys);
            self.stats.probe_n("value-record-relocated", moved_vals);
            if moved_keys >= 2 && single_key {
                self.stats.probe("cascaded-relink");
            }
            if let Some(a) = affected.as_deref() {
                if let Some(p) = pre_by_key.get(a) {
                    let chain_len = pre.chains.iter().find(|(b, _)| *b == p.bucket).map(|(_, c)| c.len()).unwrap_or(1);
                    let pos = if chain_len == 1 { "affected-only" } else if p.pos_in_chain == 0 { "affected-first" } else if p.pos_in_chain + 1 == chain_len { "affected-last" } else { "affected-middle" };
                    self.stats.probe(pos);
                    if moved_keys > 0 {
                        self.stats.probe(match pos { "affected-only" => "relocation-with-affected-only", "affected-first" => "relocation-with-affected-first", "affected-last" => "relocation-with-affected-last", _ => "relocation-with-affected-middle" });
                    }
                }
            }
        }
        self.maps[m].last_imgs = imgs;
        if !self.ep.checks.growth_rule {
            self.maps[m].last = Some(d);
            return Ok(());
        }
        // live counts per class and peaks
        let mut live_k = [0u64; 16];
        let mut live_v = [0u64; 16];
        for k in &d.keys {
            live_k[decoder::class_index(k.size)] += 1;
        }
        for v in d.vals.values() {
            live_v[decoder::class_index(v.size)] += 1;
        }
        for c in 0..16 {
            let mr = &mut self.maps[m];
            mr.peak_live_key[c] = mr.peak_live_key[c].max(live_k[c]);
            mr.peak_live_val[c] = mr.peak_live_val[c].max(live_v[c]);
        }
        if !single_key {
            self.maps[m].bound_void = true;
        }
        if single_key && !self.maps[m].bound_void {
            for c in 0..15 {
                let tot_k = live_k[c] + d.key_free[c].len() as u64;
                let tot_v = live_v[c] + d.val_free[c].len() as u64;
                if tot_k > self.maps[m].peak_live_key[c] + 1 {
                    return Err(viol("growth", "class-bound:key".into(), self.step_no, format!("key file holds {tot_k} slots of {} bytes, but at most {} were ever in use at once", CLASSES[c], self.maps[m].peak_live_key[c])));
                }
                if tot_v > self.maps[m].peak_live_val[c] + 1 {
                    return Err(viol("growth", "class-bound:val".into(), self.step_no, format!("value file holds {tot_v} slots of {} bytes, but at most {} were ever in use at once", CLASSES[c], self.maps[m].peak_live_val[c])));
                }
            }
        }
        if let (true, Some(pre)) = (single_key, self.maps[m].last.as_ref()) {
            for (what, pre_len, post_len, pre_free, post_free, post_slots) in [
                ("key", pre.key_len, d.key_len, &pre.key_free, &d.key_free, &d.key_slots),
                ("val", pre.val_len, d.val_len, &pre.val_free, &d.val_free, &d.val_slots),
            ] {
                if post_len < pre_len {
                    return Err(viol("growth", format!("shrunk:{what}"), self.step_no, format!("{what} file shrank from {pre_len} to {post_len}")));
                }
                if post_len > pre_len {
                    self.stats.probe("file-extended");
                    let post_free_all: BTreeSet<u64> = post_free.iter().flatten().copied().collect();
                    let pre_sizes: BTreeMap<u64, u32> = match what {
                        "key" => pre.key_slots.iter().map(|s| (s.off, s.size)).collect(),
                        _ => pre.val_slots.iter().map(|s| (s.off, s.size)).collect(),
                    };
                    for s in post_slots.iter().filter(|s| s.off >= pre_len) {
                        let c = decoder::class_index(s.size);
                        for &fo in pre_free[c].iter() {
                            if !post_free_all.contains(&fo) {
                                continue;
                            }
                            let fsz = *pre_sizes.get(&fo).unwrap_or(&0);
                            let suitable = if c < 15 { fsz == s.size } else { fsz >= s.size };
                            if suitable {
                                return Err(viol(
                                    "growth",
                                    format!("extended-despite-free:{what}"),
                                    self.step_no,
                                    format!("{what} file extended by a slot of {} bytes at {} although free slot {} of {} bytes was available before and after the call", s.size, s.off, fo, fsz),
                                ));
                            }
                        }
                    }
                } else if !pre_free.iter().flatten().eq(post_free.iter().flatten()) {
                    self.stats.probe("free-slot-reused-or-released");
                }
            }
            if pre.val_free[15].len() > d.val_free[15].len() {
                self.stats.probe("large-slot-reused");
            }
        }
        self.maps[m].last = Some(d);
        Ok(())
    }

    // ---------------- statistics (C17) ----------------

    pub fn stats_check(&mut self, m: usize, hd: &mut dyn DynMap) -> StepResult {
        let r = self.call("stats", |_| hd.stats())?;
        let st = match r {
            Err(e) if self.ep.checks.stats && !self.fault_active() => {
                // a diagnostic call that cannot report is not reporting the true structure
                return Err(viol("stats", format!("error:{:?}", e.kind()), self.step_no, format!("a statistics call returned Err({e}) on a healthy filesystem")));
            }
            other => self.ok("stats", other)?,
        };
        if !self.ep.checks.stats {
            return Ok(());
        }
        self.flush_quiet(hd)?;
        let d = match self.decode_and_compare(m, "stats") {
            Ok(d) => d,
            Err(Stop::Violation(v)) => return Err(Stop::Inconclusive(format!("image not decodable for the statistics comparison: {}", v.detail))),
            Err(e) => return Err(e),
        };
        if let Some((name, got, want)) = stats_diff(&st, &d) {
            // the figures may be right and the files stale (a flush that did not write is a
            // durability matter): the driver re-checks against the closed image
            self.pending_stats = Some((m, st));
            return Err(viol("stats", name.to_string(), self.step_no, format!("{name} reports {got}, files hold {want}")));
        }
        self.stats.probe("stats-compared");
        if d.key_free.iter().chain(d.val_free.iter()).any(|l| !l.is_empty()) {
            self.stats.probe("stats-with-free-slots");
        }
        Ok(())
    }

    /// a statistics mismatch was seen against the flushed image: close everything and compare
    /// the same figures with the closed image
    pub fn recheck_stats_closed(&mut self, v: Violation) -> Stop {
        let (m, st) = match self.pending_stats.take() {
            Some(x) => x,
            None => return Stop::Violation(v),
        };
        let saved = self.step_no;
        if self.close_all().is_err() {
            return Stop::Violation(v);
        }
        let r = self.decode_and_compare(m, "close");
        self.step_no = saved;
        match r {
            Ok(d) => match stats_diff(&st, &d) {
                None => Stop::Inconclusive(format!("the statistics match the closed files; flush() had not brought the files up to date ({}); durability is property C03", v.signature)),
                Some(_) => Stop::Violation(v),
            },
            Err(_) => Stop::Violation(v),
        }
    }

    // ---------------- isolation (C11) ----------------

    pub fn isolation_check(&mut self, ms: &[usize], what: &str) -> StepResult {
        let mut allowed: Vec<String> = Vec::new();
        for &m in ms {
            allowed.extend(self.file_paths(m).iter().cloned());
        }
        let bad = kernel::with(|k| {
            k.step_events
                .iter()
                .find(|e| {
                    matches!(e.op, KOp::Write | KOp::Ftruncate) && {
                        let p = &k.inodes[e.ino as usize].path;
                        !p.contains("/x0/") && !allowed.iter().any(|a| a == p)
                    }
                })
                .map(|e| (kernel::KOP_NAMES[e.op as usize], k.inodes[e.ino as usize].path.clone(), e.off, e.len))
        });
        if let Some((op, path, off, len)) = bad {
            return Err(viol("isolation", "foreign-write".into(), self.step_no, format!("{what} on map(s) {:?} issued {op}(off={off}, len={len}) on {}", ms.iter().map(|&m| self.maps[m].spec.name.clone()).collect::<Vec<_>>(), path.rsplit('/').next().unwrap_or(""))));
        }
        Ok(())
    }
}

// ------------------------------------------------------------------------------------------
// episode driver
// ------------------------------------------------------------------------------------------

fn load_faults(ep: &Episode) {
    kernel::with(|k| {
        k.directives = ep.faults.clone();
        k.bug = ep.buggify.as_ref().map(|b| Buggify {
            rng: Rng::new(b.seed),
            short_write: b.short_write,
            short_read: b.short_read,
            eintr: b.eintr,
            kinds: b.kinds,
        });
    });
}

pub struct OnceResult {
    pub crash_digests: Vec<(u32, usize, [u64; 3])>,
    pub sync_events: Vec<(u32, KOp, String, u64, u64)>,
    pub stop: Option<Stop>,
    pub images: Vec<Option<[Img; 3]>>,
    pub stats: RunStats,
    pub result_hash: u64,
}

pub fn run_once(ep: &Episode, env: &Env, dirbase: &'static str, only_updates: bool, poison: u8) -> OnceResult {
    run_once_until(ep, env, dirbase, only_updates, poison, None)
}

pub fn run_once_until(ep: &Episode, env: &Env, dirbase: &'static str, only_updates: bool, poison: u8, stop_after: Option<u32>) -> OnceResult {
    alloc::set_poison(poison);
    load_faults(ep);
    let mut w = World::new(ep, env, dirbase);
    w.only_updates = only_updates;
    w.stop_after_step = stop_after;
    let r: StepResult = (|| {
        kernel::with(|k| k.set_step(u32::MAX));
        w.step_no = 0;
        if let Some(g) = &ep.preload {
            let (meta, imgs) = crate::golden::load_golden(g).ok_or_else(|| Stop::Inconclusive(format!("golden image {g} not loadable")))?;
            let paths = w.file_paths(0);
            kernel::with(|k| {
                for i in 0..3 {
                    k.install_file(&paths[i], imgs[i].clone());
                }
            });
            for (k, stored, v) in &meta.contents {
                w.maps[0].model.insert(hexser::from_hex(stored).unwrap(), (k.clone(), hexser::from_hex(v).unwrap()));
            }
            w.maps[0].created = true;
            w.stats.probe("golden-opened");
            w.in_reopen = true;
            let r = w.open_initial();
            w.in_reopen = false;
            if let Err(e) = r {
                return Err(match e {
                    Stop::Inconclusive(s) => viol("golden", "open-failed".into(), 0, format!("golden image {g} written by the pinned release does not open: {s}")),
                    v => v,
                });
            }
            if let Err(Stop::Violation(v)) = w.audit_map(0) {
                return Err(viol("golden", format!("contents:{}", v.signature), 0, format!("golden image {g} written by the pinned release: {}", v.detail)));
            }
        } else {
            w.open_initial()?;
        }
        let mut inter: u64 = 0xcbf2_9ce4_8422_2325;
        for (i, step) in ep.steps.iter().enumerate() {
            if only_updates {
                let keep = step.is_update()
                    || step.is_structural()
                    || matches!(step, Step::Flush { .. } | Step::SyncAll { .. } | Step::SyncData { .. } | Step::DbSyncAll { .. } | Step::DbSyncData { .. });
                if !keep {
                    continue;
                }
            }
            w.step_no = i as u32;
            kernel::with(|k| k.set_step(i as u32));
            let calls_before = w.stats.api_calls;
            match w.exec(step) {
                Err(Stop::Violation(v)) if v.class == "stats" && w.pending_stats.is_some() => return Err(w.recheck_stats_closed(v)),
                other => other?,
            }
            if w.stop_after_step == Some(i as u32) {
                // crash twin child: everything up to and including this sync call has returned
                crate::xproc::wait_to_be_killed(&w);
            }
            w.stats.steps_done += 1;
            let hm = step.handle().and_then(|h| w.handles.get(h as usize).and_then(|x| x.as_ref()).map(|x| x.0));
            if let Some(h) = step.handle() {
                inter = (inter ^ (h as u64 + 1)).wrapping_mul(0x100_0000_01b3);
            }
            if w.stats.api_calls == calls_before {
                continue;
            }
            if ep.checks.isolation {
                if let Some(m) = hm {
                    w.isolation_check(&[m], step.name())?;
                }
            }
            if kernel::with(|k| k.step_events.iter().any(|e| e.op == KOp::Write)) && !matches!(step, Step::Flush { .. } | Step::SyncAll { .. } | Step::SyncData { .. } | Step::DbSyncAll { .. } | Step::DbSyncData { .. } | Step::Reopen { .. } | Step::CloseSnap { .. } | Step::CloseCompare { .. }) {
                w.stats.probe("cache-eviction-write");
            }
            if (ep.checks.growth_rule || ep.checks.post_update) && step.is_update() && !w.faulted {
                if let (Some(h), Some(m)) = (step.handle(), hm) {
                    let single = matches!(step, Step::Put { .. } | Step::PutStr { .. } | Step::Del { .. } | Step::DelStr { .. });
                    let kt = w.maps[m].spec.kt;
                    let affected = match step {
                        Step::Put { k, .. } | Step::PutStr { k, .. } | Step::Del { k, .. } | Step::DelStr { k, .. } => Some(k.stored(kt)),
                        _ => None,
                    };
                    let (mm, mut hd) = w.handles[h as usize].take().unwrap();
                    kernel::with(|k| k.step_events.clear());
                    let r = w.post_update_check(m, &mut *hd, single, affected);
                    w.handles[h as usize] = Some((mm, hd));
                    match r {
                        Err(Stop::Violation(v)) if v.class == "decoder" => return Err(w.blame_flush(m, v)),
                        Err(Stop::Violation(v)) if v.class == "growth" || v.class == "neighbour" => return Err(w.blame_flush_growth(m, v)),
                        // a structural finding that is not this property's: no decoded state to
                        // compare the next step with; the API-level audit decides right away
                        Err(Stop::Inconclusive(s)) if s.starts_with("out-of-scope:") => {
                            w.stats.probe("decoder-finding-outside-scope");
                            w.maps[m].last = None;
                            w.maps[m].last_imgs = None;
                            // a state went by unobserved: the peak-based class bound is void
                            w.maps[m].bound_void = true;
                            if ep.checks.model {
                                w.audit_map(m)?;
                            }
                        }
                        other => other?,
                    }
                }
            }
            let n = i as u32 + 1;
            if ep.checks.decode_every > 0 && n % ep.checks.decode_every == 0 && !w.faulted {
                for m in 0..w.maps.len() {
                    if let Some(slot) = w.handles.iter().position(|h| matches!(h, Some((mm, _)) if *mm == m)) {
                        let (mm, mut hd) = w.handles[slot].take().unwrap();
                        let r = (|| {
                            let fr = w.call("flush", |_| hd.flush())?;
                            w.ok("flush", fr)?;
                            match w.decode_and_compare(m, "flushed-snapshot") {
                                Err(Stop::Inconclusive(s)) if s.starts_with("out-of-scope:") => Ok(()),
                                other => other.map(|_| ()),
                            }
                        })();
                        w.handles[slot] = Some((mm, hd));
                        r?;
                    }
                }
            }
            if ep.checks.audit_every > 0 && n % ep.checks.audit_every == 0 && ep.checks.model {
                for m in 0..w.maps.len() {
                    w.audit_map(m)?;
                }
            }
        }
        w.stats.interleave_sig = inter;
        w.step_no = ep.steps.len() as u32;
        kernel::with(|k| k.set_step(u32::MAX - 1));
        if ep.checks.model {
            for m in 0..w.maps.len() {
                w.audit_map(m)?;
            }
        }
        w.close_all()?;
        if !w.faulted || kernel::with(|k| k.caps.is_empty() && k.inodes.iter().all(|i| i.refuse.is_none())) {
            w.on_closed()?;
        }
        if ep.checks.file_names {
            let mut allowed: Vec<String> = Vec::new();
            for m in 0..w.maps.len() {
                allowed.extend(w.file_paths(m).iter().cloned());
            }
            let extra: Vec<String> = kernel::with(|k| k.paths()).into_iter().filter(|p| !allowed.contains(p) && !p.contains("/x0/")).collect();
            if !extra.is_empty() {
                return Err(viol("isolation", "unexpected-file".into(), w.step_no, format!("files outside <dir>/<name>.{{htx,key,val}} were created: {:?}", extra)));
            }
        }
        Ok(())
    })();
    // make sure nothing of the crate stays alive (after a violation handles are still open)
    let _ = std::panic::catch_unwind(std::panic::AssertUnwindSafe(|| {
        for i in w.iters.iter_mut() {
            *i = None;
        }
        for h in w.handles.iter_mut() {
            *h = None;
        }
        for d in w.dbs.iter_mut() {
            *d = None;
        }
    }));
    let images = (0..w.maps.len()).map(|m| w.images(m)).collect();
    // logical end state of every map as a shape signature (number of entries and the multiset
    // of (key length, slot class of the value)): the distinct-state measure of the checks that
    // never decode an image
    for mr in w.maps.iter() {
        let mut h = 0xcbf2_9ce4_8422_2325u64 ^ (mr.model.len() as u64);
        let mut shape: Vec<(usize, u32)> = mr.model.iter().map(|(k, (_, v))| (k.len(), decoder::roundup(v.len() as u32 + 3))).collect();
        shape.sort_unstable();
        for (a, b) in shape {
            h = (h ^ (a as u64 * 131 + b as u64)).wrapping_mul(0x100_0000_01b3);
        }
        w.stats.state_sigs.insert(h | 1 << 63);
    }
    let mut stats = std::mem::take(&mut w.stats);
    kernel::with(|k| {
        for i in 0..kernel::NOPS {
            stats.kernel_calls[i] = k.counts[i];
        }
        for (n, c) in k.fired.iter() {
            *stats.faults.entry(n.to_string()).or_insert(0) += *c;
        }
        stats.bytes_written = k.bytes_written;
    });
    alloc::set_poison(0);
    OnceResult { crash_digests: std::mem::take(&mut w.crash_digests), sync_events: std::mem::take(&mut w.sync_events), stop: r.err(), images, stats, result_hash: w.result_hash }
}

fn merge_stats(a: &mut RunStats, b: RunStats) {
    a.api_calls += b.api_calls;
    a.steps_done += b.steps_done;
    a.steps_skipped += b.steps_skipped;
    a.effective_updates += b.effective_updates;
    for i in 0..kernel::NOPS {
        a.kernel_calls[i] = b.kernel_calls[i]; // kernel counters are cumulative within one episode
    }
    a.faults = b.faults;
    for (k, v) in b.probes {
        *a.probes.entry(k).or_insert(0) += v;
    }
    a.state_sigs.extend(b.state_sigs);
    a.interleave_sig ^= b.interleave_sig;
    a.crash_points += b.crash_points;
    a.crash_reopens += b.crash_reopens;
    a.decodes += b.decodes;
    a.audits += b.audits;
    a.traversals += b.traversals;
    a.bytes_written = b.bytes_written;
}

/// run one episode (all its plans) on a freshly reset simulated disk
pub fn run(ep: &Episode, env: &Env) -> Outcome {
    kernel::with(|k| k.reset());
    let mut out = Outcome { violation: None, inconclusive: None, stats: RunStats::default(), trace_hash: 0, result_hash: 0, sync_events: Vec::new() };
    match &ep.plan {
        Plan::Single => {
            let mut r = run_once(ep, env, "d", false, ep.poison);
            if ep.checks.kill_twin && env.allow_xproc && r.stop.is_none() && !r.crash_digests.is_empty() {
                match crate::xproc::kill_twin(ep, env, &r.crash_digests) {
                    Ok(true) => r.stats.probe("kill-twin-compared"),
                    Ok(false) => {}
                    Err(v) => r.stop = Some(Stop::Violation(v)),
                }
            }
            out.stats = r.stats;
            out.result_hash = r.result_hash;
            out.sync_events = r.sync_events;
            match r.stop {
                Some(Stop::Violation(v)) => out.violation = Some(v),
                Some(Stop::Inconclusive(s)) => out.inconclusive = Some(s),
                None => {}
            }
        }
        Plan::Twice { poison_a, poison_b, xproc_b } => {
            let a = run_once(ep, env, "d", true, *poison_a);
            out.stats = a.stats;
            out.result_hash = a.result_hash;
            match a.stop {
                Some(Stop::Violation(v)) => out.violation = Some(v),
                Some(Stop::Inconclusive(s)) => out.inconclusive = Some(s),
                None => {
                    let b = if *xproc_b && env.allow_xproc {
                        crate::xproc::run_b_in_child(ep, env)
                    } else {
                        let b = run_once(ep, env, "e", false, *poison_b);
                        Ok((b.stop, b.images, b.stats))
                    };
                    match b {
                        Err(s) => out.inconclusive = Some(s),
                        Ok((stop, images_b, stats_b)) => {
                            merge_stats(&mut out.stats, stats_b);
                            match stop {
                                Some(Stop::Violation(v)) => out.violation = Some(v),
                                Some(Stop::Inconclusive(s)) => out.inconclusive = Some(s),
                                None => {
                                    for (m, (ia, ib)) in a.images.iter().zip(images_b.iter()).enumerate() {
                                        if let (Some(ia), Some(ib)) = (ia, ib) {
                                            for (i, kind) in ["htx", "key", "val"].iter().enumerate() {
                                                if ia[i] != ib[i] {
                                                    let off = ia[i].first_diff(&ib[i]).unwrap_or(0);
                                                    out.violation = Some(Violation {
                                                        class: "image-diff".into(),
                                                        signature: format!("image-diff:twice:{kind}"),
                                                        step: ep.steps.len() as u32,
                                                        detail: format!(
                                                            "map '{}' file .{kind}: run A (updates only) and run B (same updates, read-only calls spliced in, other directory{}) differ: length {} vs {}, first difference at offset {off}",
                                                            ep.maps[m].name,
                                                            if *xproc_b { ", other process" } else { ", other allocator poison" },
                                                            ia[i].len,
                                                            ib[i].len
                                                        ),
                                                    });
                                                }
                                            }
                                        } else if ia.is_some() != ib.is_some() {
                                            out.violation = Some(Violation { class: "image-diff".into(), signature: "image-diff:twice:existence".into(), step: 0, detail: format!("map '{}' exists in only one of the two runs", ep.maps[m].name) });
                                        }
                                    }
                                    out.stats.probe("twice-compared");
                                }
                            }
                        }
                    }
                }
            }
        }
    }
    out.trace_hash = kernel::with(|k| k.trace_hash);
    out
}
