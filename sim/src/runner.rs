//! Executes one episode against the real crate on the simulated kernel and evaluates the
//! enabled oracles while the run proceeds.

use crate::decoder::{self, Decoded};
use crate::handles::{self, DynIter, DynMap, ItemOut};
use crate::kernel::{self, Img, KOp};
use crate::ops::*;
use crate::rng::Rng;
use abyssiniandb::filedb::FileDb;
use std::cell::RefCell;
use std::collections::{BTreeMap, BTreeSet};
use std::io;
use std::panic::{catch_unwind, AssertUnwindSafe};

pub const MAX_HANDLES: usize = 16;
pub const MAX_DBS: usize = 6;
pub const MAX_ITERS: usize = 8;

// ---------------- panic capture ----------------

thread_local! {
    static LAST_PANIC: RefCell<Option<(String, String)>> = RefCell::new(None);
}

pub fn install_panic_hook() {
    std::panic::set_hook(Box::new(|info| {
        let loc = info
            .location()
            .map(|l| {
                let f = l.file();
                let f = f.rsplit('/').next().unwrap_or(f);
                format!("{}:{}", f, l.line())
            })
            .unwrap_or_else(|| "?".into());
        let msg = if let Some(s) = info.payload().downcast_ref::<&str>() {
            s.to_string()
        } else if let Some(s) = info.payload().downcast_ref::<String>() {
            s.clone()
        } else {
            "<non-string panic>".to_string()
        };
        LAST_PANIC.with(|p| *p.borrow_mut() = Some((loc, msg)));
    }));
}

fn take_panic() -> (String, String) {
    LAST_PANIC.with(|p| p.borrow_mut().take()).unwrap_or(("?".into(), "?".into()))
}

/// digits in panic messages vary with the input; normalise them for signatures
pub fn normalise(s: &str) -> String {
    let mut out = String::new();
    let mut last_digit = false;
    for c in s.chars().take(80) {
        if c.is_ascii_digit() {
            if !last_digit {
                out.push('N');
            }
            last_digit = true;
        } else {
            out.push(c);
            last_digit = false;
        }
    }
    out
}

// ---------------- environment / results ----------------

#[derive(Clone, Debug)]
pub struct Env {
    /// real, existing directory; simulated files live "below" it
    pub root: String,
    pub verbose: bool,
    pub allow_xproc: bool,
    pub exe: String,
}

#[derive(Clone, Debug, Default)]
pub struct RunStats {
    pub api_calls: u64,
    pub steps_done: u64,
    pub steps_skipped: u64,
    pub effective_updates: u64,
    pub kernel_calls: [u64; kernel::NOPS],
    pub faults: BTreeMap<String, u64>,
    pub probes: BTreeMap<&'static str, u64>,
    pub state_sigs: BTreeSet<u64>,
    pub interleave_sig: u64,
    pub crash_points: u64,
    pub crash_reopens: u64,
    pub decodes: u64,
    pub audits: u64,
    pub traversals: u64,
    pub bytes_written: u64,
}

impl RunStats {
    pub fn probe(&mut self, name: &'static str) {
        *self.probes.entry(name).or_insert(0) += 1;
    }
    pub fn probe_n(&mut self, name: &'static str, n: u64) {
        if n > 0 {
            *self.probes.entry(name).or_insert(0) += n;
        }
    }
}

#[derive(Clone, Debug)]
pub struct Outcome {
    pub violation: Option<Violation>,
    /// the run could not decide the property (e.g. panic in a check that does not cover panics)
    pub inconclusive: Option<String>,
    pub stats: RunStats,
    pub trace_hash: u64,
    /// hash over all API results (determinism self-test)
    pub result_hash: u64,
    pub sync_events: Vec<(u32, KOp, String, u64, u64)>,
}

pub struct MapRt {
    pub spec: MapSpec,
    pub model: BTreeMap<Vec<u8>, (Key, Vec<u8>)>,
    pub created: bool,
    pub buckets: Option<u64>,
    pub params: Params,
    /// last decoded (flushed) state, for the growth rule
    pub last: Option<Decoded>,
    pub peak_live_key: [u64; 16],
    pub peak_live_val: [u64; 16],
    pub marks: Vec<(u64, u64)>,
    pub last_imgs: Option<[Img; 3]>,
    /// a multi-key update happened: in-use counts inside such a call are not observable, so the
    /// per-class bound (peak at call boundaries + 1) is no longer asserted for this map
    pub bound_void: bool,
}

pub struct IterRt {
    pub m: usize,
    pub fl: Flavour,
    pub it: DynIter,
    pub items: Vec<ItemOut>,
    pub expected: u64,
    pub finished: bool,
}

pub struct World<'a> {
    pub ep: &'a Episode,
    pub env: &'a Env,
    pub dirbase: &'static str,
    pub dbs: Vec<Option<(u8, FileDb)>>,
    pub handles: Vec<Option<(usize, Box<dyn DynMap>)>>,
    pub iters: Vec<Option<IterRt>>,
    pub maps: Vec<MapRt>,
    pub snaps: BTreeMap<u8, Vec<Option<[Img; 3]>>>,
    pub stats: RunStats,
    pub step_no: u32,
    pub result_hash: u64,
    pub faulted: bool,
    pub only_updates: bool,
    pub in_reopen: bool,
    /// kernel events of the flush/sync steps (C16 derives its fault points from them)
    pub sync_events: Vec<(u32, KOp, String, u64, u64)>,
    /// (step, map, digests of the three written images) at every crash point
    pub crash_digests: Vec<(u32, usize, [u64; 3])>,
    /// child mode of the crash twin: stop (and wait to be killed) after this step
    pub stop_after_step: Option<u32>,
    pub pending_stats: Option<(usize, crate::handles::Stats)>,
}

pub type StepResult = Result<(), Stop>;

pub enum Stop {
    Violation(Violation),
    Inconclusive(String),
}

pub fn viol(class: &str, sig: String, step: u32, detail: String) -> Stop {
    Stop::Violation(Violation { class: class.to_string(), signature: format!("{class}:{sig}"), step, detail })
}

fn hex_short(b: &[u8]) -> String {
    if b.len() <= 24 {
        format!("[{}]{}", b.len(), hexser::to_hex(b))
    } else {
        format!("[{}]{}..", b.len(), hexser::to_hex(&b[..24]))
    }
}

fn opt_short(v: &Option<Vec<u8>>) -> String {
    match v {
        None => "None".into(),
        Some(b) => format!("Some({})", hex_short(b)),
    }
}

impl<'a> World<'a> {
    pub fn new(ep: &'a Episode, env: &'a Env, dirbase: &'static str) -> World<'a> {
        World {
            ep,
            env,
            dirbase,
            dbs: (0..MAX_DBS).map(|_| None).collect(),
            handles: (0..MAX_HANDLES).map(|_| None).collect(),
            iters: (0..MAX_ITERS).map(|_| None).collect(),
            maps: ep
                .maps
                .iter()
                .map(|s| MapRt {
                    spec: s.clone(),
                    model: BTreeMap::new(),
                    created: false,
                    buckets: None,
                    params: s.params.clone(),
                    last: None,
                    peak_live_key: [0; 16],
                    peak_live_val: [0; 16],
                    marks: Vec::new(),
                    last_imgs: None,
                    bound_void: false,
                })
                .collect(),
            snaps: BTreeMap::new(),
            stats: RunStats::default(),
            step_no: 0,
            result_hash: 0x9e37_79b9_7f4a_7c15,
            faulted: false,
            only_updates: false,
            in_reopen: false,
            sync_events: Vec::new(),
            crash_digests: Vec::new(),
            stop_after_step: None,
            pending_stats: None,
        }
    }

    pub fn dir_path(&self, dir: u8) -> String {
        format!("{}/{}{}", self.env.root, self.dirbase, dir)
    }
    pub fn file_paths(&self, m: usize) -> [String; 3] {
        let s = &self.maps[m].spec;
        let d = self.dir_path(s.dir);
        [format!("{}/{}.htx", d, s.name), format!("{}/{}.key", d, s.name), format!("{}/{}.val", d, s.name)]
    }
    pub fn images(&self, m: usize) -> Option<[Img; 3]> {
        let p = self.file_paths(m);
        if kernel::with(|k| k.mode) == kernel::Mode::Trace {
            let a = crate::golden::img_from_real_file(&p[0]).ok()?;
            let b = crate::golden::img_from_real_file(&p[1]).ok()?;
            let c = crate::golden::img_from_real_file(&p[2]).ok()?;
            return Some([a, b, c]);
        }
        kernel::with(|k| {
            let a = k.file(&p[0])?.written.clone();
            let b = k.file(&p[1])?.written.clone();
            let c = k.file(&p[2])?.written.clone();
            Some([a, b, c])
        })
    }
    fn mix_result(&mut self, v: u64) {
        self.result_hash = (self.result_hash ^ v).wrapping_mul(0x100_0000_01b3);
        self.result_hash ^= self.result_hash >> 29;
    }
    fn mix_bytes(&mut self, b: &[u8]) {
        let mut h = b.len() as u64;
        for x in b.iter().take(64) {
            h = (h ^ *x as u64).wrapping_mul(0x100_0000_01b3);
        }
        self.mix_result(h);
    }

    /// run one API call, catching panics
    pub fn call<R>(&mut self, what: &str, f: impl FnOnce(&mut Self) -> R) -> Result<R, Stop> {
        self.stats.api_calls += 1;
        let r = catch_unwind(AssertUnwindSafe(|| f(self)));
        match r {
            Ok(v) => Ok(v),
            Err(_) => {
                let (loc, msg) = take_panic();
                let detail = format!("{what} panicked at {loc}: {msg}");
                let c = &self.ep.checks;
                let covered = c.panics
                    || (c.iter && (what.starts_with("iter") || what == "size_hint"))
                    || (c.stats && what == "stats")
                    || (c.typed && what == "key-conversion")
                    || (self.in_reopen && c.reopen_must_succeed);
                if covered {
                    Err(viol("panic", format!("{}:{}", loc.split(':').next().unwrap_or("?"), normalise(&msg)), self.step_no, detail))
                } else {
                    Err(Stop::Inconclusive(detail))
                }
            }
        }
    }

    /// unwrap an io::Result from the API: errors are violations unless a fault explains them
    pub fn ok<T>(&mut self, what: &str, r: io::Result<T>) -> Result<T, Stop> {
        match r {
            Ok(v) => Ok(v),
            Err(e) => {
                if self.fault_active() {
                    self.faulted = true;
                    Err(Stop::Inconclusive(format!("{what} failed under an injected fault: {e}")))
                } else if self.ep.checks.panics || (self.in_reopen && self.ep.checks.reopen_must_succeed) {
                    Err(viol("error", format!("{what}:{:?}", e.kind()), self.step_no, format!("{what} returned Err({e}) on a healthy filesystem")))
                } else {
                    Err(Stop::Inconclusive(format!("{what} returned Err({e})")))
                }
            }
        }
    }

    pub fn fault_active(&self) -> bool {
        kernel::with(|k| {
            !k.caps.is_empty()
                || k.inodes.iter().any(|i| i.refuse.is_some() || i.pending_errno.is_some())
                || k.fired.iter().any(|(n, _)| {
                    matches!(*n, "write-refused" | "size-cap" | "fsync-error" | "truncate-refused" | "read-error" | "open-refused" | "partial-write")
                })
        })
    }

    fn model_mismatch(&self, what: &str, k: &str, got: String, want: String) -> Stop {
        viol("model", what.to_string(), self.step_no, format!("{what}({k}) returned {got}, ideal map gives {want}"))
    }

    // ---------------- handle management ----------------

    pub fn open_db(&mut self, d: usize, dir: u8) -> StepResult {
        let path = self.dir_path(dir);
        let r = self.call("open_file", |_| abyssiniandb::open_file(&path))?;
        let db = self.ok("open_file", r)?;
        self.dbs[d] = Some((dir, db));
        Ok(())
    }

    pub fn acquire(&mut self, h: usize, m: usize, via: &Via) -> StepResult {
        if h >= MAX_HANDLES || m >= self.maps.len() {
            self.stats.steps_skipped += 1;
            return Ok(());
        }
        match via {
            Via::Db(d) => {
                let d = *d as usize;
                let spec = self.maps[m].spec.clone();
                let params = self.maps[m].params.clone();
                let db = match self.dbs.get(d).and_then(|x| x.as_ref()) {
                    Some((dir, db)) if *dir == spec.dir => db.clone(),
                    _ => {
                        self.stats.steps_skipped += 1;
                        return Ok(());
                    }
                };
                let r = self.call("db_map", |_| handles::open_map(&db, &spec.name, spec.kt, &params))?;
                let hd = self.ok("db_map", r)?;
                self.maps[m].created = true;
                self.handles[h] = Some((m, hd));
            }
            Via::Clone(from) => {
                let from = *from as usize;
                let cl = match self.handles.get(from).and_then(|x| x.as_ref()) {
                    Some((mm, hd)) if *mm == m => hd.clone_handle(),
                    _ => {
                        self.stats.steps_skipped += 1;
                        return Ok(());
                    }
                };
                self.handles[h] = Some((m, cl));
            }
        }
        Ok(())
    }

    pub fn open_initial(&mut self) -> StepResult {
        let mut dirs: Vec<u8> = self.maps.iter().map(|m| m.spec.dir).collect();
        dirs.sort_unstable();
        dirs.dedup();
        for d in dirs {
            self.open_db(d as usize, d)?;
        }
        for m in 0..self.maps.len() {
            let d = self.maps[m].spec.dir;
            self.acquire(m, m, &Via::Db(d))?;
        }
        Ok(())
    }

    /// drop every iterator, handle and database handle
    pub fn close_all(&mut self) -> StepResult {
        self.call("drop", |w| {
            for i in w.iters.iter_mut() {
                *i = None;
            }
            for h in w.handles.iter_mut() {
                *h = None;
            }
            for d in w.dbs.iter_mut() {
                *d = None;
            }
        })?;
        let open = kernel::with(|k| k.open_fd_count());
        if open != 0 {
            return Err(Stop::Inconclusive(format!("harness: {open} descriptors still open after dropping every handle")));
        }
        Ok(())
    }

    fn handle_map(&self, h: u8) -> Option<usize> {
        self.handles.get(h as usize).and_then(|x| x.as_ref()).map(|x| x.0)
    }

    /// invalidate live iterators of a map that is about to be modified
    fn drop_iters_of(&mut self, m: usize) {
        for i in self.iters.iter_mut() {
            if matches!(i, Some(it) if it.m == m) {
                *i = None;
            }
        }
    }

    // ---------------- one step ----------------

    pub fn exec(&mut self, step: &Step) -> StepResult {
        // borrow dance: take the handle out of its slot for the duration of the call
        macro_rules! with_h {
            ($h:expr, |$m:ident, $hd:ident| $body:block) => {{
                let slot = *$h as usize;
                if slot >= MAX_HANDLES || self.handles[slot].is_none() {
                    self.stats.steps_skipped += 1;
                    return Ok(());
                }
                let ($m, mut $hd) = self.handles[slot].take().unwrap();
                let r: StepResult = (|| $body)();
                self.handles[slot] = Some(($m, $hd));
                r
            }};
        }
        let model_on = self.ep.checks.model;
        // results of the bulk / *_string convenience calls are property C14's
        let conv_on = self.ep.checks.model_bulk;
        match step {
            Step::Put { h, k, v, mode } => with_h!(h, |m, hd| {
                self.drop_iters_of(m);
                let kt = hd.ktype();
                let vb = v.bytes();
                if self.ep.checks.typed {
                    if let Some((bv, br, same)) = self.call("key-conversion", |_| hd.roundtrip(k))? {
                        if bv != *k || br != *k || !same {
                            return Err(viol("typed", "roundtrip".into(), self.step_no, format!("integer key {} converts to a key and back as {} (by value) / {} (by reference); by-value and by-reference keys equal: {same}", k.short(), bv.short(), br.short())));
                        }
                        self.stats.probe("typed-roundtrip");
                    }
                }
                let r = self.call("put", |_| hd.put(k, &vb, *mode))?;
                self.ok("put", r)?;
                self.maps[m].model.insert(k.stored(kt), (k.clone(), vb));
                self.stats.effective_updates += 1;
                Ok(())
            }),
            Step::PutStr { h, k, v } => with_h!(h, |m, hd| {
                self.drop_iters_of(m);
                let kt = hd.ktype();
                let r = self.call("put_string", |_| hd.put_string(k, v))?;
                self.ok("put_string", r)?;
                self.maps[m].model.insert(k.stored(kt), (k.clone(), v.as_bytes().to_vec()));
                self.stats.effective_updates += 1;
                Ok(())
            }),
            Step::Get { h, k, mode } => with_h!(h, |m, hd| {
                let kt = hd.ktype();
                let r = self.call("get", |_| hd.get(k, *mode))?;
                let got = self.ok("get", r)?;
                if let Some(g) = &got {
                    self.mix_bytes(g);
                }
                let want = self.maps[m].model.get(&k.stored(kt)).map(|x| x.1.clone());
                if model_on && got != want {
                    return Err(self.model_mismatch("get", &k.short(), opt_short(&got), opt_short(&want)));
                }
                Ok(())
            }),
            Step::GetStr { h, k } => with_h!(h, |m, hd| {
                let kt = hd.ktype();
                let r = self.call("get_string", |_| hd.get_string(k))?;
                let got = self.ok("get_string", r)?;
                let want = self.maps[m].model.get(&k.stored(kt)).map(|x| String::from_utf8_lossy(&x.1).to_string());
                if model_on && conv_on && got != want {
                    return Err(self.model_mismatch("get_string", &k.short(), format!("{got:?}"), format!("{want:?}")));
                }
                Ok(())
            }),
            Step::Del { h, k, mode } => with_h!(h, |m, hd| {
                self.drop_iters_of(m);
                let kt = hd.ktype();
                let r = self.call("delete", |_| hd.delete(k, *mode))?;
                let got = self.ok("delete", r)?;
                let want = self.maps[m].model.remove(&k.stored(kt)).map(|x| x.1);
                if want.is_some() {
                    self.stats.effective_updates += 1;
                }
                if model_on && got != want {
                    return Err(self.model_mismatch("delete", &k.short(), opt_short(&got), opt_short(&want)));
                }
                Ok(())
            }),
            Step::DelStr { h, k } => with_h!(h, |m, hd| {
                self.drop_iters_of(m);
                let kt = hd.ktype();
                let r = self.call("delete_string", |_| hd.delete_string(k))?;
                let got = self.ok("delete_string", r)?;
                let want = self.maps[m].model.remove(&k.stored(kt)).map(|x| String::from_utf8_lossy(&x.1).to_string());
                if want.is_some() {
                    self.stats.effective_updates += 1;
                }
                if model_on && conv_on && got != want {
                    return Err(self.model_mismatch("delete_string", &k.short(), format!("{got:?}"), format!("{want:?}")));
                }
                Ok(())
            }),
            Step::Inc { h, k, mode } => with_h!(h, |m, hd| {
                let kt = hd.ktype();
                let r = self.call("includes_key", |_| hd.includes(k, *mode))?;
                let got = self.ok("includes_key", r)?;
                self.mix_result(got as u64);
                let want = self.maps[m].model.contains_key(&k.stored(kt));
                if model_on && got != want {
                    return Err(self.model_mismatch("includes_key", &k.short(), got.to_string(), want.to_string()));
                }
                Ok(())
            }),
            Step::Len { h } => with_h!(h, |m, hd| {
                let r = self.call("len", |_| hd.len())?;
                let got = self.ok("len", r)?;
                self.mix_result(got);
                let want = self.maps[m].model.len() as u64;
                if model_on && got != want {
                    return Err(self.model_mismatch("len", "", got.to_string(), want.to_string()));
                }
                Ok(())
            }),
            Step::IsEmpty { h } => with_h!(h, |m, hd| {
                let r = self.call("is_empty", |_| hd.is_empty())?;
                let got = self.ok("is_empty", r)?;
                let want = self.maps[m].model.is_empty();
                if model_on && got != want {
                    return Err(self.model_mismatch("is_empty", "", got.to_string(), want.to_string()));
                }
                Ok(())
            }),
            Step::BulkGet { h, ks } => with_h!(h, |m, hd| {
                let kt = hd.ktype();
                let r = self.call("bulk_get", |_| hd.bulk_get(ks))?;
                let got = self.ok("bulk_get", r)?;
                let want: Vec<Option<Vec<u8>>> =
                    ks.iter().map(|k| self.maps[m].model.get(&k.stored(kt)).map(|x| x.1.clone())).collect();
                if model_on && conv_on && got != want {
                    let pos = (0..want.len().max(got.len())).find(|&i| got.get(i) != want.get(i)).unwrap_or(0);
                    return Err(self.model_mismatch(
                        "bulk_get",
                        &format!("batch of {} keys, position {pos}", ks.len()),
                        got.get(pos).map(opt_short).unwrap_or("<missing>".into()),
                        want.get(pos).map(opt_short).unwrap_or("<missing>".into()),
                    ));
                }
                Ok(())
            }),
            Step::BulkGetStr { h, ks } => with_h!(h, |m, hd| {
                let kt = hd.ktype();
                let r = self.call("bulk_get_string", |_| hd.bulk_get_string(ks))?;
                let got = self.ok("bulk_get_string", r)?;
                let want: Vec<Option<String>> = ks
                    .iter()
                    .map(|k| self.maps[m].model.get(&k.stored(kt)).map(|x| String::from_utf8_lossy(&x.1).to_string()))
                    .collect();
                if model_on && conv_on && got != want {
                    return Err(self.model_mismatch("bulk_get_string", &format!("batch of {}", ks.len()), format!("{got:?}"), format!("{want:?}")));
                }
                Ok(())
            }),
            Step::BulkPut { h, kvs } => with_h!(h, |m, hd| {
                self.drop_iters_of(m);
                let kt = hd.ktype();
                let kvb: Vec<(Key, Vec<u8>)> = kvs.iter().map(|(k, v)| (k.clone(), v.bytes())).collect();
                let r = self.call("bulk_put", |_| hd.bulk_put(&kvb))?;
                self.ok("bulk_put", r)?;
                for (k, v) in kvb {
                    self.maps[m].model.insert(k.stored(kt), (k, v));
                    self.stats.effective_updates += 1;
                }
                Ok(())
            }),
            Step::BulkPutStr { h, kvs } => with_h!(h, |m, hd| {
                self.drop_iters_of(m);
                let kt = hd.ktype();
                let r = self.call("bulk_put_string", |_| hd.bulk_put_string(kvs))?;
                self.ok("bulk_put_string", r)?;
                for (k, v) in kvs {
                    self.maps[m].model.insert(k.stored(kt), (k.clone(), v.as_bytes().to_vec()));
                    self.stats.effective_updates += 1;
                }
                Ok(())
            }),
            Step::BulkDel { h, ks } => with_h!(h, |m, hd| {
                self.drop_iters_of(m);
                let kt = hd.ktype();
                let r = self.call("bulk_delete", |_| hd.bulk_delete(ks))?;
                let got = self.ok("bulk_delete", r)?;
                // element-wise reference: delete of the i-th key (batches have no repeats)
                let want: Vec<Option<Vec<u8>>> =
                    ks.iter().map(|k| self.maps[m].model.get(&k.stored(kt)).map(|x| x.1.clone())).collect();
                for k in ks {
                    if self.maps[m].model.remove(&k.stored(kt)).is_some() {
                        self.stats.effective_updates += 1;
                    }
                }
                if model_on && conv_on && got != want {
                    let pos = (0..want.len().max(got.len())).find(|&i| got.get(i) != want.get(i)).unwrap_or(0);
                    return Err(self.model_mismatch(
                        "bulk_delete",
                        &format!("batch of {} keys, position {pos}", ks.len()),
                        got.get(pos).map(opt_short).unwrap_or("<missing>".into()),
                        want.get(pos).map(opt_short).unwrap_or("<missing>".into()),
                    ));
                }
                Ok(())
            }),
            Step::BulkDelStr { h, ks } => with_h!(h, |m, hd| {
                self.drop_iters_of(m);
                let kt = hd.ktype();
                let r = self.call("bulk_delete_string", |_| hd.bulk_delete_string(ks))?;
                let got = self.ok("bulk_delete_string", r)?;
                let want: Vec<Option<String>> = ks
                    .iter()
                    .map(|k| self.maps[m].model.get(&k.stored(kt)).map(|x| String::from_utf8_lossy(&x.1).to_string()))
                    .collect();
                for k in ks {
                    if self.maps[m].model.remove(&k.stored(kt)).is_some() {
                        self.stats.effective_updates += 1;
                    }
                }
                if model_on && conv_on && got != want {
                    return Err(self.model_mismatch("bulk_delete_string", &format!("batch of {}", ks.len()), format!("{got:?}"), format!("{want:?}")));
                }
                Ok(())
            }),
            Step::PutIter { h, kvs } => with_h!(h, |m, hd| {
                self.drop_iters_of(m);
                let kt = hd.ktype();
                let kvb: Vec<(Key, Vec<u8>)> = kvs.iter().map(|(k, v)| (k.clone(), v.bytes())).collect();
                let r = self.call("put_from_iter", |_| hd.put_from_iter(&kvb))?;
                self.ok("put_from_iter", r)?;
                for (k, v) in kvb {
                    self.maps[m].model.insert(k.stored(kt), (k, v));
                    self.stats.effective_updates += 1;
                }
                Ok(())
            }),
            Step::Flush { h } | Step::SyncAll { h } | Step::SyncData { h } => with_h!(h, |m, hd| {
                let (name, r) = match step {
                    Step::Flush { .. } => ("flush", self.call("flush", |_| hd.flush())?),
                    Step::SyncAll { .. } => ("sync_all", self.call("sync_all", |_| hd.sync_all())?),
                    _ => ("sync_data", self.call("sync_data", |_| hd.sync_data())?),
                };
                self.after_sync(name, r, vec![m], &mut *hd)
            }),
            Step::ReadFill { h } => with_h!(h, |_m, hd| {
                let r = self.call("read_fill_buffer", |_| hd.read_fill_buffer())?;
                self.ok("read_fill_buffer", r)?;
                Ok(())
            }),
            Step::IsDirty { h } => with_h!(h, |_m, hd| {
                let d = self.call("is_dirty", |_| hd.is_dirty())?;
                self.mix_result(d as u64);
                Ok(())
            }),
            Step::Stats { h } => with_h!(h, |m, hd| { self.stats_check(m, &mut *hd) }),
            Step::Traverse { h, fl, stop_after } => with_h!(h, |m, hd| {
                self.traverse(m, &mut *hd, *fl, *stop_after)
            }),
            Step::IterNew { h, fl, it } => with_h!(h, |m, hd| {
                let slot = *it as usize;
                if slot >= MAX_ITERS {
                    return Ok(());
                }
                let fl = *fl;
                let iter = self.call("iter_new", |_| hd.iter(fl))?;
                let expected = self.maps[m].model.len() as u64;
                self.iters[slot] = Some(IterRt { m, fl, it: iter, items: Vec::new(), expected, finished: false });
                Ok(())
            }),
            Step::IterNext { it, n } => self.iter_next(*it as usize, *n),
            Step::IterDrop { it } => {
                if let Some(s) = self.iters.get_mut(*it as usize) {
                    *s = None;
                }
                Ok(())
            }
            Step::Acquire { h, m, via } => {
                if (*h as usize) < MAX_HANDLES {
                    self.handles[*h as usize] = None;
                }
                self.acquire(*h as usize, *m as usize, via)
            }
            Step::Release { h } => {
                if (*h as usize) < MAX_HANDLES {
                    let slot = *h as usize;
                    self.call("drop", |w| w.handles[slot] = None)?;
                }
                Ok(())
            }
            Step::DbOpen { d, dir } => {
                if (*d as usize) < MAX_DBS && self.maps.iter().any(|m| m.spec.dir == *dir) {
                    self.open_db(*d as usize, *dir)
                } else {
                    Ok(())
                }
            }
            Step::DbClone { d, from } => {
                if (*d as usize) < MAX_DBS {
                    if let Some(Some((dir, db))) = self.dbs.get(*from as usize) {
                        let c = (*dir, db.clone());
                        self.dbs[*d as usize] = Some(c);
                    }
                }
                Ok(())
            }
            Step::DbDrop { d } => {
                if (*d as usize) < MAX_DBS {
                    let slot = *d as usize;
                    if self.dbs[slot].is_some() && self.handles.iter().any(|h| h.is_some()) {
                        self.stats.probe("db-handle-dropped-before-map-handles");
                    }
                    self.call("drop", |w| w.dbs[slot] = None)?;
                }
                Ok(())
            }
            Step::DbSyncAll { d } | Step::DbSyncData { d } => {
                let (dir, db) = match self.dbs.get(*d as usize).and_then(|x| x.as_ref()) {
                    Some((dir, db)) => (*dir, db.clone()),
                    None => {
                        self.stats.steps_skipped += 1;
                        return Ok(());
                    }
                };
                let all = matches!(step, Step::DbSyncAll { .. });
                let name = if all { "db_sync_all" } else { "db_sync_data" };
                let r = self.call(name, |_| if all { db.sync_all() } else { db.sync_data() })?;
                // maps reachable through this database object: those acquired via a FileDb that
                // shares its inner state; conservatively: maps of that directory which have a live handle
                let ms: Vec<usize> = (0..self.maps.len())
                    .filter(|&m| self.maps[m].spec.dir == dir && self.handles.iter().any(|h| matches!(h, Some((mm, _)) if *mm == m)))
                    .collect();
                self.after_db_sync(name, r, ms)
            }
            Step::Reopen { params, xproc } => self.reopen(params.as_ref(), *xproc),
            Step::Audit => {
                for m in 0..self.maps.len() {
                    self.audit_map(m)?;
                }
                Ok(())
            }
            Step::CloseSnap { tag } => {
                self.close_all()?;
                let v: Vec<Option<[Img; 3]>> = (0..self.maps.len()).map(|m| self.images(m)).collect();
                self.snaps.insert(*tag, v);
                self.open_initial()
            }
            Step::CloseCompare { tag } => {
                self.close_all()?;
                self.compare_with_snap(*tag)?;
                self.open_initial()
            }
            Step::Lift => {
                kernel::with(|k| k.lift_faults());
                Ok(())
            }
            Step::Cap { file, cap } => {
                kernel::with(|k| k.set_cap(file, *cap));
                Ok(())
            }
            Step::Corrupt { m, kind, off, xor } => {
                self.close_all()?;
                let m = *m as usize;
                if m >= self.maps.len() {
                    return Ok(());
                }
                let p = self.file_paths(m)[*kind as usize % 3].clone();
                kernel::with(|k| {
                    if let Some(f) = k.file_mut(&p) {
                        if let Some(b) = f.written.byte(*off) {
                            f.written.write_at(*off, &[b ^ *xor]);
                            f.durable = f.written.clone();
                        }
                    }
                });
                self.stats.probe("byte-corrupted");
                Ok(())
            }
            Step::Truncate { m, kind, len } => {
                self.close_all()?;
                let m = *m as usize;
                if m >= self.maps.len() {
                    return Ok(());
                }
                for (i, p) in self.file_paths(m).iter().enumerate() {
                    if *kind as usize == i || *kind >= 3 {
                        kernel::with(|k| {
                            if let Some(f) = k.file_mut(p) {
                                if f.written.len > *len {
                                    f.written.set_len(*len);
                                    f.durable = f.written.clone();
                                }
                            }
                        });
                    }
                }
                self.stats.probe("file-truncated");
                Ok(())
            }
            Step::SwapFile { m, m2, kind } => {
                self.close_all()?;
                let (m, m2) = (*m as usize, *m2 as usize);
                if m >= self.maps.len() || m2 >= self.maps.len() {
                    return Ok(());
                }
                let k = *kind as usize % 3;
                let src = self.file_paths(m2)[k].clone();
                let dst = self.file_paths(m)[k].clone();
                kernel::with(|kn| {
                    if let Some(img) = kn.file(&src).map(|f| f.written.clone()) {
                        kn.install_file(&dst, img);
                    }
                });
                self.stats.probe("file-swapped");
                Ok(())
            }
            Step::ForeignOpen { m, as_kt, expect_refused, swapped_from } => self.foreign_open(*m as usize, *as_kt, *expect_refused, *swapped_from),
            Step::ForeignOpenHtxOnly { m, as_kt, empty } => self.foreign_open_htx_only(*m as usize, *as_kt, *empty),
            Step::Convert { h, k } => with_h!(h, |_m, hd| {
                if let Some((bv, br, same)) = self.call("key-conversion", |_| hd.roundtrip(k))? {
                    if self.ep.checks.typed && (bv != *k || br != *k || !same) {
                        return Err(viol("typed", "roundtrip".into(), self.step_no, format!("integer key {} converts to a key and back as {} (by value) / {} (by reference); by-value and by-reference keys equal: {same}", k.short(), bv.short(), br.short())));
                    }
                    self.stats.probe("typed-roundtrip");
                }
                Ok(())
            }),
            Step::Nop => Ok(()),
        }
    }

    fn compare_with_snap(&mut self, tag: u8) -> StepResult {
        let snap = match self.snaps.get(&tag) {
            Some(s) => s.clone(),
            None => return Ok(()),
        };
        for m in 0..self.maps.len() {
            let now = self.images(m);
            match (&snap[m], &now) {
                (Some(a), Some(b)) => {
                    for (i, kind) in ["htx", "key", "val"].iter().enumerate() {
                        if a[i] != b[i] {
                            let off = a[i].first_diff(&b[i]).unwrap_or(0);
                            return Err(viol(
                                "image-diff",
                                format!("readonly:{kind}"),
                                self.step_no,
                                format!(
                                    "map '{}' file .{kind} differs after a session of read-only calls: length {} -> {}, first difference at offset {off}",
                                    self.maps[m].spec.name, a[i].len, b[i].len
                                ),
                            ));
                        }
                    }
                }
                (None, None) => {}
                _ => {
                    return Err(viol("image-diff", "readonly:existence".into(), self.step_no, format!("map '{}': files appeared/disappeared", self.maps[m].spec.name)));
                }
            }
        }
        self.stats.probe("readonly-session-compared");
        Ok(())
    }

    fn reopen(&mut self, params: Option<&Vec<Params>>, xproc: bool) -> StepResult {
        self.close_all()?;
        self.on_closed()?;
        if let Some(ps) = params {
            for (m, p) in ps.iter().enumerate() {
                if m < self.maps.len() {
                    if *p != self.maps[m].params {
                        self.stats.probe("reopen-other-params");
                    }
                    self.maps[m].params = p.clone();
                }
            }
        }
        if xproc && self.env.allow_xproc {
            crate::xproc::audit_closed_images(self)?;
        }
        self.in_reopen = true;
        let r = self.open_initial();
        self.in_reopen = false;
        r?;
        self.stats.probe("reopen");
        if self.ep.checks.model {
            for m in 0..self.maps.len() {
                if let Err(Stop::Violation(v)) = self.audit_map(m) {
                    return Err(viol("reopen", v.signature.clone(), self.step_no, format!("after dropping every handle and reopening: {}", v.detail)));
                }
            }
        }
        Ok(())
    }

    /// all descriptors closed: decoder oracles on the closed images
    pub fn on_closed(&mut self) -> StepResult {
        if !self.ep.checks.decode_on_close {
            return Ok(());
        }
        for m in 0..self.maps.len() {
            if !self.maps[m].created {
                continue;
            }
            match self.decode_and_compare(m, "close") {
                Err(Stop::Inconclusive(s)) if s.starts_with("out-of-scope:") => {
                    self.stats.probe("decoder-finding-outside-scope");
                }
                other => {
                    other?;
                }
            }
        }
        Ok(())
    }

    // ---------------- traversal oracle ----------------

    fn verify_items(&mut self, m: usize, fl: Flavour, items: &[ItemOut], complete: bool) -> StepResult {
        let kt = self.maps[m].spec.kt;
        let model = &self.maps[m].model;
        let name = format!("{:?}", fl);
        let mut seen: BTreeSet<&[u8]> = BTreeSet::new();
        let mut vals: Vec<&[u8]> = Vec::new();
        for it in items {
            if let Some(k) = &it.key {
                if !seen.insert(k.as_slice()) {
                    return Err(viol("iter", "duplicate".into(), self.step_no, format!("{name}: key {} yielded twice (map '{}', {} live keys)", hex_short(k), self.maps[m].spec.name, model.len())));
                }
                match model.get(k) {
                    None => {
                        return Err(viol("iter", "phantom".into(), self.step_no, format!("{name}: yielded key {} that is not live", hex_short(k))));
                    }
                    Some((orig, v)) => {
                        if let Some(got) = &it.val {
                            if got != v {
                                return Err(viol("iter", "wrong-value".into(), self.step_no, format!("{name}: key {} paired with {} instead of {}", hex_short(k), hex_short(got), hex_short(v))));
                            }
                        }
                        if let Some(back) = &it.key_back {
                            if self.ep.checks.typed && back != orig {
                                return Err(viol("typed", "iter-key-back".into(), self.step_no, format!("{name}: iterated key converts back to {} but {} was put", back.short(), orig.short())));
                            }
                            let _ = kt;
                        }
                    }
                }
            } else if let Some(v) = &it.val {
                vals.push(v.as_slice());
            }
        }
        if complete {
            if items.len() != model.len() {
                let missing: Vec<String> = if fl != Flavour::Values {
                    model.keys().filter(|k| !seen.contains(k.as_slice())).take(3).map(|k| hex_short(k)).collect()
                } else {
                    vec![]
                };
                return Err(viol("iter", "count".into(), self.step_no, format!("{name}: yielded {} items, map holds {} (missing e.g. {:?})", items.len(), model.len(), missing)));
            }
            if fl == Flavour::Values {
                let mut a: Vec<&[u8]> = vals;
                let mut b: Vec<&[u8]> = model.values().map(|x| x.1.as_slice()).collect();
                a.sort();
                b.sort();
                if a != b {
                    return Err(viol("iter", "values-multiset".into(), self.step_no, format!("{name}: multiset of values differs from the live values")));
                }
            }
        }
        Ok(())
    }

    fn traverse(&mut self, m: usize, hd: &mut dyn DynMap, fl: Flavour, stop_after: Option<u32>) -> StepResult {
        let check = self.ep.checks.iter;
        let total = self.maps[m].model.len() as u64;
        let mut it = self.call("iter_new", |_| hd.iter(fl))?;
        let mut items: Vec<ItemOut> = Vec::new();
        let mut complete = false;
        let limit = total + 64; // a correct traversal never exceeds len(); bound runaway ones
        loop {
            if let Some(s) = stop_after {
                if items.len() as u32 >= s {
                    break;
                }
            }
            let rem = total.saturating_sub(items.len() as u64);
            let hint = self.call("size_hint", |_| it.size_hint())?;
            if check && hint != (rem as usize, Some(rem as usize)) {
                return Err(viol("iter", "size_hint".into(), self.step_no, format!("{:?}: size_hint {:?} before step {} but {} items remain", fl, hint, items.len(), rem)));
            }
            let nx = self.call("iter_next", |_| it.next())?;
            match nx {
                Some(x) => {
                    if let Some(k) = &x.key {
                        self.mix_bytes(k);
                    }
                    items.push(x);
                    if items.len() as u64 > limit {
                        return Err(viol("iter", "overrun".into(), self.step_no, format!("{:?}: more than {} items from a map of {}", fl, limit, total)));
                    }
                }
                None => {
                    complete = true;
                    break;
                }
            }
        }
        if complete && check {
            for i in 0..3 {
                let nx = self.call("iter_next", |_| it.next())?;
                if nx.is_some() {
                    return Err(viol("iter", "not-fused".into(), self.step_no, format!("{:?}: next() #{} after the end returned an item", fl, i + 1)));
                }
            }
        }
        self.call("drop", |_| drop(it))?;
        self.stats.traversals += 1;
        if check {
            self.verify_items(m, fl, &items, complete)?;
        }
        Ok(())
    }

    fn iter_next(&mut self, slot: usize, n: u32) -> StepResult {
        if slot >= MAX_ITERS || self.iters[slot].is_none() {
            self.stats.steps_skipped += 1;
            return Ok(());
        }
        let check = self.ep.checks.iter;
        let mut rt = self.iters[slot].take().unwrap();
        let r: StepResult = (|| {
            for _ in 0..n {
                if rt.finished {
                    let nx = self.call("iter_next", |_| rt.it.next())?;
                    if check && nx.is_some() {
                        return Err(viol("iter", "not-fused".into(), self.step_no, format!("{:?}: next() after the end returned an item", rt.fl)));
                    }
                    continue;
                }
                let rem = rt.expected.saturating_sub(rt.items.len() as u64);
                let hint = self.call("size_hint", |_| rt.it.size_hint())?;
                if check && hint != (rem as usize, Some(rem as usize)) {
                    return Err(viol("iter", "size_hint".into(), self.step_no, format!("{:?}: size_hint {:?} but {} items remain (interleaved traversal)", rt.fl, hint, rem)));
                }
                let nx = self.call("iter_next", |_| rt.it.next())?;
                match nx {
                    Some(x) => {
                        rt.items.push(x);
                        if rt.items.len() as u64 > rt.expected + 64 {
                            return Err(viol("iter", "overrun".into(), self.step_no, format!("{:?}: runaway traversal", rt.fl)));
                        }
                    }
                    None => {
                        rt.finished = true;
                        self.stats.traversals += 1;
                        self.stats.probe("interleaved-traversal-finished");
                        if check {
                            let items = std::mem::take(&mut rt.items);
                            self.verify_items(rt.m, rt.fl, &items, true)?;
                        }
                    }
                }
            }
            Ok(())
        })();
        self.iters[slot] = Some(rt);
        r
    }

    // ---------------- audit ----------------

    /// full audit of map m through some live handle
    pub fn audit_map(&mut self, m: usize) -> StepResult {
        let slot = match self.handles.iter().position(|h| matches!(h, Some((mm, _)) if *mm == m)) {
            Some(s) => s,
            None => return Ok(()),
        };
        let (mm, mut hd) = self.handles[slot].take().unwrap();
        let r = self.audit_with(m, &mut *hd);
        self.handles[slot] = Some((mm, hd));
        r
    }

    pub fn audit_with(&mut self, m: usize, hd: &mut dyn DynMap) -> StepResult {
        self.stats.audits += 1;
        let kt = self.maps[m].spec.kt;
        let entries: Vec<(Vec<u8>, Key, Vec<u8>)> =
            self.maps[m].model.iter().map(|(s, (k, v))| (s.clone(), k.clone(), v.clone())).collect();
        let r = self.call("len", |_| hd.len())?;
        let n = self.ok("len", r)?;
        if n != entries.len() as u64 {
            return Err(viol("model", "audit-len".into(), self.step_no, format!("audit: len() = {n}, ideal map holds {}", entries.len())));
        }
        let r = self.call("is_empty", |_| hd.is_empty())?;
        let e = self.ok("is_empty", r)?;
        if e != entries.is_empty() {
            return Err(viol("model", "audit-is_empty".into(), self.step_no, format!("audit: is_empty() = {e}")));
        }
        for (_s, k, v) in &entries {
            let r = self.call("get", |_| hd.get(k, KeyMode::Ref))?;
            let got = self.ok("get", r)?;
            if got.as_ref() != Some(v) {
                return Err(viol("model", "audit-get".into(), self.step_no, format!("audit: get({}) = {}, ideal map gives Some({})", k.short(), opt_short(&got), hex_short(v))));
            }
        }
        // absent probes: neighbours of present keys
        let mut probes: Vec<Key> = Vec::new();
        for (s, k, _) in entries.iter().take(8) {
            match k {
                Key::B(_) | Key::G { .. } => {
                    let mut a = s.clone();
                    a.push(0);
                    probes.push(Key::B(a));
                    if !s.is_empty() {
                        probes.push(Key::B(s[..s.len() - 1].to_vec()));
                    }
                }
                Key::U(u) => {
                    probes.push(Key::U(u.wrapping_add(1)));
                    probes.push(Key::U(u ^ (1 << 63)));
                }
                Key::I(i) => {
                    probes.push(Key::I(i.wrapping_add(1)));
                    probes.push(Key::I(i.wrapping_neg()));
                }
            }
        }
        if entries.is_empty() {
            probes.push(if kt.is_int() { if kt == KType::I64 { Key::I(0) } else { Key::U(0) } } else { Key::B(vec![]) });
        }
        for k in probes {
            let want = self.maps[m].model.get(&k.stored(kt)).map(|x| x.1.clone());
            let r = self.call("get", |_| hd.get(&k, KeyMode::Ref))?;
            let got = self.ok("get", r)?;
            if got != want {
                return Err(viol("model", "audit-absent".into(), self.step_no, format!("audit: get({}) = {}, ideal map gives {}", k.short(), opt_short(&got), opt_short(&want))));
            }
            let r = self.call("includes_key", |_| hd.includes(&k, KeyMode::Ref))?;
            let inc = self.ok("includes_key", r)?;
            if inc != want.is_some() {
                return Err(viol("model", "audit-includes".into(), self.step_no, format!("audit: includes_key({}) = {inc}", k.short())));
            }
        }
        // one full traversal
        if !self.ep.checks.audit_traverse {
            return Ok(());
        }
        let mut it = self.call("iter_new", |_| hd.iter(Flavour::Iter))?;
        let mut items = Vec::new();
        loop {
            let nx = self.call("iter_next", |_| it.next())?;
            match nx {
                Some(x) => {
                    items.push(x);
                    if items.len() > entries.len() + 64 {
                        break;
                    }
                }
                None => break,
            }
        }
        self.call("drop", |_| drop(it))?;
        if let Err(Stop::Violation(v)) = self.verify_items(m, Flavour::Iter, &items, true) {
            return Err(viol("model", format!("audit-{}", v.signature), self.step_no, format!("audit traversal: {}", v.detail)));
        }
        Ok(())
    }

    // ---------------- foreign open (C13) ----------------

    fn foreign_open(&mut self, m: usize, as_kt: KType, expect_refused: bool, swapped_from: Option<KType>) -> StepResult {
        if m >= self.maps.len() {
            return Ok(());
        }
        self.close_all()?;
        let before = self.images(m);
        let spec = self.maps[m].spec.clone();
        let path = self.dir_path(spec.dir);
        kernel::with(|k| k.set_step(self.step_no));
        self.stats.api_calls += 1;
        let res = catch_unwind(AssertUnwindSafe(|| -> io::Result<Option<u64>> {
            let db = abyssiniandb::open_file(&path)?;
            let mut h = handles::open_map(&db, &spec.name, as_kt, &spec.params)?;
            // a handle was returned: the open was accepted. Produce a lookup result.
            let n = h.len()?;
            let _ = h.flush();
            Ok(Some(n))
        }));
        let outcome = match res {
            Err(_) => {
                let (loc, msg) = take_panic();
                format!("panic at {loc}: {}", normalise(&msg))
            }
            Ok(Err(e)) => format!("Err({e})"),
            Ok(Ok(n)) => format!("accepted (len() = {:?})", n),
        };
        let accepted = outcome.starts_with("accepted");
        let wrote: Vec<String> = kernel::with(|k| {
            k.step_events
                .iter()
                .filter(|e| matches!(e.op, KOp::Write | KOp::Ftruncate))
                .map(|e| format!("{}@{}", kernel::KOP_NAMES[e.op as usize], k.inodes[e.ino as usize].path.rsplit('/').next().unwrap_or("")))
                .collect()
        });
        // whatever happened, no descriptor may stay open for the comparison
        let _ = self.close_all();
        let after = self.images(m);
        let pair = match swapped_from {
            Some(o) => format!("file-of-{}-in-{}-map", o.name(), as_kt.name()),
            None => format!("{}->{}", spec.kt.name(), as_kt.name()),
        };
        if expect_refused {
            if accepted {
                let what = match swapped_from {
                    Some(o) => format!("a map created as {} with one file taken from a map created as {} was opened as {}", spec.kt.name(), o.name(), as_kt.name()),
                    None => format!("files of map '{}' created as {} were opened as {}", spec.name, spec.kt.name(), as_kt.name()),
                };
                return Err(viol("foreign-open", format!("accepted:{pair}"), self.step_no, format!("{what}: {outcome}")));
            }
            self.stats.probe("foreign-open-refused");
            if before != after || !wrote.is_empty() {
                return Err(viol("foreign-open", format!("modified:{pair}"), self.step_no, format!("rejected open ({outcome}) changed the files: kernel writes {:?}", wrote)));
            }
        } else {
            if !accepted {
                return Err(viol("foreign-open", format!("matching-refused:{pair}"), self.step_no, format!("open with the matching key type failed: {outcome}")));
            }
            self.stats.probe("matching-open-accepted");
        }
        Ok(())
    }
}

impl World<'_> {
    /// only the bucket table of a map is left (its .key/.val are missing or empty): opening the
    /// name with a type the table was not made for must be refused, the table must stay unchanged
    fn foreign_open_htx_only(&mut self, m: usize, as_kt: KType, empty: bool) -> StepResult {
        if m >= self.maps.len() {
            return Ok(());
        }
        self.close_all()?;
        let spec = self.maps[m].spec.clone();
        let paths = self.file_paths(m);
        kernel::with(|k| {
            for p in &paths[1..] {
                if empty {
                    if let Some(f) = k.file_mut(p) {
                        f.written.set_len(0);
                        f.durable = f.written.clone();
                    }
                } else {
                    k.remove_file(p);
                }
            }
        });
        let before = kernel::with(|k| k.file(&paths[0]).map(|f| f.written.clone()));
        let path = self.dir_path(spec.dir);
        kernel::with(|k| k.set_step(self.step_no));
        self.stats.api_calls += 1;
        let res = catch_unwind(AssertUnwindSafe(|| -> io::Result<Option<u64>> {
            let db = abyssiniandb::open_file(&path)?;
            let mut h = handles::open_map(&db, &spec.name, as_kt, &spec.params)?;
            let n = h.len()?;
            let _ = h.flush();
            Ok(Some(n))
        }));
        let outcome = match res {
            Err(_) => {
                let (loc, msg) = take_panic();
                format!("panic at {loc}: {}", normalise(&msg))
            }
            Ok(Err(e)) => format!("Err({e})"),
            Ok(Ok(n)) => format!("accepted (len() = {:?})", n),
        };
        let htx_name = paths[0].rsplit('/').next().unwrap_or("").to_string();
        let wrote: Vec<String> = kernel::with(|k| {
            k.step_events
                .iter()
                .filter(|e| matches!(e.op, KOp::Write | KOp::Ftruncate) && k.inodes[e.ino as usize].path.ends_with(&htx_name))
                .map(|e| format!("{}@{}", kernel::KOP_NAMES[e.op as usize], htx_name))
                .collect()
        });
        let _ = self.close_all();
        let after = kernel::with(|k| k.file(&paths[0]).map(|f| f.written.clone()));
        let pair = format!("{}->{}", spec.kt.name(), as_kt.name());
        self.stats.probe("htx-only-open");
        if outcome.starts_with("accepted") {
            return Err(viol("foreign-open", format!("accepted:{pair}"), self.step_no, format!("bucket table of map '{}' created as {} (its .key/.val {}) was opened as {}: {outcome}", spec.name, spec.kt.name(), if empty { "emptied" } else { "removed" }, as_kt.name())));
        }
        self.stats.probe("foreign-open-refused");
        if before != after || !wrote.is_empty() {
            return Err(viol("foreign-open", format!("modified:{pair}"), self.step_no, format!("rejected open ({outcome}) changed the bucket table: kernel writes {:?}", wrote)));
        }
        Ok(())
    }
}

pub fn seeded_shuffle<T>(v: &mut [T], rng: &mut Rng) {
    for i in (1..v.len()).rev() {
        let j = rng.below(i as u64 + 1) as usize;
        v.swap(i, j);
    }
}
