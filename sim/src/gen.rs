//! Seeded generation of episodes.  Everything is drawn from streams of one integer; the
//! result is an explicit `Episode` (no generator state is needed to replay it).

use crate::decoder;
use crate::ops::*;
use crate::rng::{mix, Rng};
use std::collections::BTreeSet;

pub const SMALL_CLASSES: [u32; 15] = [16, 24, 32, 48, 64, 80, 96, 112, 128, 256, 384, 512, 640, 768, 896];

#[derive(Clone, Copy, Debug, PartialEq)]
pub enum ValDist {
    /// 0..40 bytes
    Tiny,
    /// slot-class edges of the small classes, 0, 1
    Boundary,
    /// boundary + large slots (1..6 KiB), occasionally 4 KiB / 128 KiB chunk edges
    Mixed,
    /// mixed + now and then a value that pushes the file past 128 KiB (and, thorough, 16 MiB)
    Pushing,
    /// churn on the shared large free list: slots from 1 KiB to several 100 KiB (slot size fields
    /// of 2 and 3 bytes), few distinct sizes so that first-fit skips, reuses and splits nothing
    LargeChurn,
}

#[derive(Clone, Copy, Debug, PartialEq)]
pub enum KeyDist {
    Short,
    Boundary,
    Mixed,
    /// keys whose records need large slots (>= 1024 bytes), few distinct lengths
    Long,
}

pub struct Gen {
    pub rng: Rng,
    pub tag: u64,
    pub thorough: bool,
}

impl Gen {
    pub fn new(seed: u64, thorough: bool) -> Gen {
        Gen { rng: Rng::stream(seed, "gen"), tag: mix(&[seed, 77]) & 0xffff_ffff_0000, thorough }
    }
    pub fn next_tag(&mut self) -> u64 {
        self.tag += 1;
        self.tag
    }

    pub fn val_len(&mut self, d: ValDist) -> usize {
        let r = &mut self.rng;
        match d {
            ValDist::Tiny => r.below(40) as usize,
            ValDist::Boundary => {
                match r.below(10) {
                    0 => r.below(2) as usize,
                    _ => {
                        let c = *r.pick(&SMALL_CLASSES) as i64;
                        let base = if c >= 128 { c - 3 } else { c - 2 };
                        (base + r.range(0, 4) as i64 - 2).max(0) as usize
                    }
                }
            }
            ValDist::LargeChurn => {
                let base = *r.pick(&[1100usize, 1500, 2000, 3000, 5000, 9000, 16380, 20000, 40000, 70000, 100_000, 131_000, 131_072, 140_000, 156_000, 182_000, 221_000, 260_000, 400_000]);
                if r.chance(1, 3) {
                    base + r.below(130) as usize
                } else {
                    base
                }
            }
            ValDist::Mixed | ValDist::Pushing => {
                let x = r.below(100);
                if x < 45 {
                    let c = *r.pick(&SMALL_CLASSES) as i64;
                    let base = if c >= 128 { c - 3 } else { c - 2 };
                    (base + r.range(0, 4) as i64 - 2).max(0) as usize
                } else if x < 55 {
                    r.below(3) as usize
                } else if x < 80 {
                    // large slots: multiples of 128 minus header, +-2
                    let k = r.range(8, 48) as i64;
                    (k * 128 - 4 + r.range(0, 4) as i64 - 2) as usize
                } else if x < 88 {
                    // vu64 width edge of the length field and of piece size
                    *r.pick(&[125usize, 126, 127, 128, 129, 1016, 1017, 1018, 1019, 1020, 1021, 1022, 1023, 1024, 1150])
                } else if x < 94 {
                    (4096 + r.range(0, 16) as i64 - 8) as usize
                } else if x < 97 {
                    (16384 + r.range(0, 8) as i64 - 4) as usize
                } else if d == ValDist::Pushing {
                    if self.thorough && r.chance(1, 6) {
                        16 * 1024 * 1024 - 64 + r.below(128) as usize
                    } else if r.chance(1, 3) {
                        (2 * 1024 * 1024 + r.below(4096)) as usize
                    } else {
                        (131072 + r.range(0, 600) as i64 - 300) as usize
                    }
                } else {
                    r.range(1100, 9000) as usize
                }
            }
        }
    }

    pub fn key_len(&mut self, d: KeyDist) -> usize {
        let r = &mut self.rng;
        match d {
            KeyDist::Short => r.range(0, 12) as usize,
            KeyDist::Long => *r.pick(&[900usize, 1010, 1020, 1100, 1500, 2000, 3000, 5000]) + r.below(3) as usize,
            KeyDist::Boundary => {
                // exact-fit lengths: 1 (size) + 1 (len) + klen + 1..3 + 1..3 on a class edge
                let c = *r.pick(&SMALL_CLASSES[..9]) as i64;
                let base = if c >= 128 { c - 5 } else { c - 4 };
                (base - r.range(0, 4) as i64 + r.range(0, 1) as i64).max(0) as usize
            }
            KeyDist::Mixed => {
                let x = r.below(100);
                if x < 40 {
                    let c = *r.pick(&SMALL_CLASSES[..9]) as i64;
                    let base = if c >= 128 { c - 5 } else { c - 4 };
                    (base - r.range(0, 4) as i64 + r.range(0, 1) as i64).max(0) as usize
                } else if x < 60 {
                    r.range(0, 9) as usize
                } else if x < 80 {
                    // multiples of the 8-byte hash chunk +-1
                    (8 * r.range(1, 6) as i64 + r.range(0, 2) as i64 - 1) as usize
                } else if x < 90 {
                    *r.pick(&[120usize, 121, 122, 123, 124, 125, 126, 127, 128, 129, 250, 251, 252])
                } else if x < 97 {
                    r.range(300, 1100) as usize
                } else if self.thorough {
                    r.range(1100, 66000) as usize
                } else {
                    r.range(1100, 5000) as usize
                }
            }
        }
    }

    pub fn value(&mut self, d: ValDist) -> Val {
        let n = self.val_len(d);
        let tag = self.next_tag();
        if n <= 48 {
            Val::B(crate::rng::payload(tag, n))
        } else {
            Val::G { len: n as u32, tag }
        }
    }

    pub fn value_of_len(&mut self, n: usize) -> Val {
        let tag = self.next_tag();
        if n <= 48 {
            Val::B(crate::rng::payload(tag, n))
        } else {
            Val::G { len: n as u32, tag }
        }
    }

    /// string for the *_string calls (valid UTF-8 by construction)
    pub fn string_value(&mut self) -> String {
        let n = self.rng.below(40) as usize;
        let tag = self.next_tag();
        let mut s = format!("{:x}", tag);
        let alphabet = ["a", "Z", "0", " ", "é", "日", "\u{0}", "~", "ß"];
        while s.len() < n {
            s.push_str(*self.rng.pick(&alphabet[..]));
        }
        s
    }

    pub fn int_any(&mut self) -> u64 {
        self.int_boundary()
    }
    fn int_boundary(&mut self) -> u64 {
        let r = &mut self.rng;
        match r.below(6) {
            0 => {
                let k = r.below(64);
                (1u64 << k).wrapping_add(r.below(3)).wrapping_sub(1)
            }
            1 => {
                // vu64 length steps 2^(7k) +- 1
                let k = r.range(1, 9);
                if k >= 9 {
                    u64::MAX - r.below(2)
                } else {
                    (1u64 << (7 * k)).wrapping_add(r.below(3)).wrapping_sub(1)
                }
            }
            2 => *r.pick(&[0u64, 1, u64::MAX, i64::MAX as u64, i64::MIN as u64, (-1i64) as u64, 255, 256, 65535, 65536]),
            3 => r.below(300),
            _ => r.next(),
        }
    }

    pub fn alphabet(&mut self, kt: KType, n: usize, kd: KeyDist, buckets: Option<(u64, u64)>) -> Vec<Key> {
        let mut out: Vec<Key> = Vec::new();
        let mut seen: BTreeSet<Vec<u8>> = BTreeSet::new();
        let mut tries = 0;
        let max_tries = match buckets {
            Some((nb, _)) => (n as u64 * nb.min(4096) * 6 + 200) as usize,
            None => n * 400 + 100,
        };
        while out.len() < n && tries < max_tries {
            tries += 1;
            let k = match kt {
                KType::U64 | KType::Vu64 => Key::U(self.int_boundary()),
                KType::I64 => Key::I(self.int_boundary() as i64),
                KType::Str | KType::Bytes => {
                    let r = self.rng.below(10);
                    if r < 2 && !out.is_empty() {
                        // prefix / extension of an existing key
                        let base = out[self.rng.below(out.len() as u64) as usize].stored(kt);
                        let mut b = base.clone();
                        if self.rng.chance(1, 2) && !b.is_empty() {
                            b.truncate(self.rng.below(b.len() as u64) as usize);
                        } else {
                            b.push(self.rng.below(3) as u8 * 127);
                        }
                        Key::B(b)
                    } else {
                        let len = self.key_len(kd);
                        if len > 64 {
                            Key::G { len: len as u32, tag: self.next_tag() }
                        } else {
                            let mut b = vec![0u8; len];
                            self.rng.fill(&mut b);
                            if self.rng.chance(1, 3) {
                                for x in b.iter_mut() {
                                    *x = b'a' + (*x % 26);
                                }
                            } else if self.rng.chance(1, 4) {
                                for x in b.iter_mut() {
                                    if *x % 5 == 0 {
                                        *x = 0;
                                    }
                                }
                            }
                            Key::B(b)
                        }
                    }
                }
            };
            let s = k.stored(kt);
            if let Some((nb, target)) = buckets {
                if decoder::bucket_of(&s, nb) != target {
                    continue;
                }
            }
            if seen.insert(s) {
                out.push(k);
            }
        }
        if out.is_empty() {
            // the bucket constraint could not be met: fall back to an unconstrained key
            return self.alphabet(kt, 1, kd, None);
        }
        out
    }
}

#[derive(Clone, Debug)]
pub struct Weights {
    pub put: u32,
    pub get: u32,
    pub del: u32,
    pub inc: u32,
    pub len: u32,
    pub strs: u32,
    pub bulk: u32,
    pub put_iter: u32,
    pub flush: u32,
    pub sync: u32,
    pub db_sync: u32,
    pub read_fill: u32,
    pub stats: u32,
    pub traverse: u32,
    pub iter_steps: u32,
    pub handles: u32,
    pub reopen: u32,
    pub audit: u32,
    /// delete every live key of the map (the map is emptied again)
    pub empty_out: u32,
}

impl Weights {
    pub fn basic() -> Weights {
        Weights { put: 40, get: 20, del: 18, inc: 6, len: 4, strs: 0, bulk: 0, put_iter: 0, flush: 0, sync: 0, db_sync: 0, read_fill: 0, stats: 0, traverse: 0, iter_steps: 0, handles: 0, reopen: 0, audit: 0, empty_out: 0 }
    }
}

#[derive(Clone, Debug)]
pub struct HistCfg {
    pub maps: Vec<MapSpec>,
    pub alphabet: usize,
    pub kd: KeyDist,
    pub vd: ValDist,
    pub steps: usize,
    pub w: Weights,
    /// force all keys of map 0 into one bucket (collision control)
    pub one_bucket: bool,
    pub reopen_params: bool,
    pub xproc_every: u32,
    /// bulk batches may repeat keys (only where the statement allows it)
    pub bulk_max: usize,
}

pub fn pick_buckets(r: &mut Rng, thorough: bool) -> Buckets {
    let sizes: [u64; 19] = [1, 2, 3, 4, 7, 8, 9, 16, 63, 64, 65, 72, 127, 128, 129, 256, 1024, 4096, 65536];
    let caps: [u64; 10] = [1, 4, 7, 8, 9, 56, 57, 100, 1000, 50000];
    match r.below(20) {
        0..=12 => Buckets::Size(*r.pick(&sizes)),
        13..=18 => Buckets::Cap(*r.pick(&caps)),
        _ => {
            if thorough {
                Buckets::Default
            } else {
                Buckets::Size(512)
            }
        }
    }
}

pub fn pick_small_buckets(r: &mut Rng) -> Buckets {
    Buckets::Size(*r.pick(&[1u64, 2, 4, 8, 8, 16]))
}

/// buffer settings from the region that is meant to work (see DESIGN §6 for the excluded one)
pub fn pick_buf(r: &mut Rng, record_file: bool) -> Buf {
    match r.below(10) {
        0..=3 => Buf::PerMille(1000),
        4..=6 => Buf::Auto,
        7 => Buf::Size(*r.pick(&[262144u32, 0, 4096, 100_000, 200_000, 131_072])),
        8 => Buf::Size(*r.pick(&[393216u32, 524288, 1048576, 300_000, 10_000])),
        _ => {
            if record_file {
                Buf::Auto
            } else {
                Buf::PerMille(1000)
            }
        }
    }
}

pub fn pick_params(r: &mut Rng, thorough: bool) -> Params {
    Params { buckets: pick_buckets(r, thorough), htx: pick_buf(r, false), key: pick_buf(r, true), val: pick_buf(r, true) }
}

pub fn map_names() -> [&'static str; 6] {
    ["m", "m1", "m.key", "mm", "a.b", "m1.htx"]
}

/// generic seeded history over the configured maps
pub fn history(g: &mut Gen, cfg: &HistCfg) -> Vec<Step> {
    let nm = cfg.maps.len();
    let mut alph: Vec<Vec<Key>> = Vec::new();
    for (i, m) in cfg.maps.iter().enumerate() {
        let b = if cfg.one_bucket && i == 0 {
            let nb = m.params.expected_buckets(false);
            if nb > 1 && nb <= 4096 {
                Some((nb, g.rng.below(nb)))
            } else {
                None
            }
        } else {
            None
        };
        alph.push(g.alphabet(m.kt, cfg.alphabet.max(1), cfg.kd, b));
    }
    let mut live: Vec<BTreeSet<usize>> = vec![BTreeSet::new(); nm];
    // handle slots: 0..nm primary; nm..nm+4 extra (slot -> map)
    let mut extra: Vec<Option<usize>> = vec![None; 4];
    let mut iters: Vec<Option<usize>> = vec![None; 3];
    let w = &cfg.w;
    let weights = [
        w.put, w.get, w.del, w.inc, w.len, w.strs, w.bulk, w.put_iter, w.flush, w.sync, w.db_sync, w.read_fill, w.stats, w.traverse, w.iter_steps, w.handles,
        w.reopen, w.audit, w.empty_out,
    ];
    let mut steps = Vec::with_capacity(cfg.steps);
    let mut reopen_count = 0u32;
    while steps.len() < cfg.steps {
        let m = g.rng.below(nm as u64) as usize;
        let kt = cfg.maps[m].kt;
        // choose a handle of map m
        let mut hs: Vec<u8> = vec![m as u8];
        for (i, e) in extra.iter().enumerate() {
            if *e == Some(m) {
                hs.push((nm + i) as u8);
            }
        }
        let h = *g.rng.pick(&hs);
        let a = &alph[m];
        let pick_key = |g: &mut Gen, live: &BTreeSet<usize>, want_live: bool| -> (usize, Key) {
            if want_live && !live.is_empty() && g.rng.chance(4, 5) {
                let idx = *live.iter().nth(g.rng.below(live.len() as u64) as usize).unwrap();
                (idx, a[idx].clone())
            } else {
                let idx = g.rng.below(a.len() as u64) as usize;
                (idx, a[idx].clone())
            }
        };
        let mode = |g: &mut Gen| *g.rng.pick(&[KeyMode::Ref, KeyMode::Ref, KeyMode::Val, KeyMode::Str]);
        match g.rng.weighted(&weights) {
            0 => {
                let (i, k) = pick_key(g, &live[m], false);
                let v = g.value(cfg.vd);
                live[m].insert(i);
                steps.push(Step::Put { h, k, v, mode: mode(g) });
            }
            1 => {
                let (_, k) = pick_key(g, &live[m], true);
                steps.push(Step::Get { h, k, mode: mode(g) });
            }
            2 => {
                let (i, k) = pick_key(g, &live[m], true);
                live[m].remove(&i);
                steps.push(Step::Del { h, k, mode: mode(g) });
            }
            3 => {
                let (_, k) = pick_key(g, &live[m], true);
                steps.push(Step::Inc { h, k, mode: mode(g) });
            }
            4 => {
                if g.rng.chance(1, 2) {
                    steps.push(Step::Len { h });
                } else {
                    steps.push(Step::IsEmpty { h });
                }
            }
            5 => match g.rng.below(3) {
                0 => {
                    let (i, k) = pick_key(g, &live[m], false);
                    live[m].insert(i);
                    let v = g.string_value();
                    steps.push(Step::PutStr { h, k, v });
                }
                1 => {
                    let (_, k) = pick_key(g, &live[m], true);
                    steps.push(Step::GetStr { h, k });
                }
                _ => {
                    let (i, k) = pick_key(g, &live[m], true);
                    live[m].remove(&i);
                    steps.push(Step::DelStr { h, k });
                }
            },
            6 => {
                let n = g.rng.below(cfg.bulk_max as u64 + 1) as usize;
                let which = g.rng.below(6);
                let repeats_ok = which == 0 || which == 1;
                let mut idxs: Vec<usize> = Vec::new();
                let mut used = BTreeSet::new();
                for _ in 0..n {
                    let i = g.rng.below(a.len() as u64) as usize;
                    if repeats_ok || used.insert(i) {
                        idxs.push(i);
                    }
                }
                let ks: Vec<Key> = idxs.iter().map(|&i| a[i].clone()).collect();
                match which {
                    0 => steps.push(Step::BulkGet { h, ks }),
                    1 => steps.push(Step::BulkGetStr { h, ks }),
                    2 => {
                        let kvs = ks.into_iter().map(|k| (k, g.value(cfg.vd))).collect();
                        for i in idxs {
                            live[m].insert(i);
                        }
                        steps.push(Step::BulkPut { h, kvs });
                    }
                    3 => {
                        let kvs = ks.into_iter().map(|k| (k, g.string_value())).collect();
                        for i in idxs {
                            live[m].insert(i);
                        }
                        steps.push(Step::BulkPutStr { h, kvs });
                    }
                    4 => {
                        for i in idxs {
                            live[m].remove(&i);
                        }
                        steps.push(Step::BulkDel { h, ks });
                    }
                    _ => {
                        for i in idxs {
                            live[m].remove(&i);
                        }
                        steps.push(Step::BulkDelStr { h, ks });
                    }
                }
            }
            7 => {
                let n = g.rng.below(cfg.bulk_max as u64 + 1) as usize;
                let mut kvs = Vec::new();
                for _ in 0..n {
                    let i = g.rng.below(a.len() as u64) as usize;
                    live[m].insert(i);
                    kvs.push((a[i].clone(), g.value(cfg.vd)));
                }
                steps.push(Step::PutIter { h, kvs });
            }
            8 => steps.push(Step::Flush { h }),
            9 => {
                if g.rng.chance(1, 2) {
                    steps.push(Step::SyncAll { h })
                } else {
                    steps.push(Step::SyncData { h })
                }
            }
            10 => {
                let d = cfg.maps[m].dir;
                if g.rng.chance(1, 2) {
                    steps.push(Step::DbSyncAll { d })
                } else {
                    steps.push(Step::DbSyncData { d })
                }
            }
            11 => {
                if g.rng.chance(1, 2) {
                    steps.push(Step::ReadFill { h })
                } else {
                    steps.push(Step::IsDirty { h })
                }
            }
            12 => steps.push(Step::Stats { h }),
            13 => {
                let fl = *g.rng.pick(&ALL_FLAVOURS);
                let stop_after = if g.rng.chance(1, 6) { Some(g.rng.below(4) as u32) } else { None };
                steps.push(Step::Traverse { h, fl, stop_after });
            }
            14 => {
                let it = g.rng.below(iters.len() as u64) as usize;
                match iters[it] {
                    None => {
                        iters[it] = Some(m);
                        steps.push(Step::IterNew { h, fl: *g.rng.pick(&ALL_FLAVOURS), it: it as u8 });
                    }
                    Some(_) => {
                        if g.rng.chance(1, 8) {
                            iters[it] = None;
                            steps.push(Step::IterDrop { it: it as u8 });
                        } else {
                            steps.push(Step::IterNext { it: it as u8, n: g.rng.range(1, 4) as u32 });
                        }
                    }
                }
            }
            15 => {
                let e = g.rng.below(extra.len() as u64) as usize;
                let slot = (nm + e) as u8;
                match g.rng.below(6) {
                    0 => {
                        extra[e] = None;
                        steps.push(Step::Release { h: slot });
                    }
                    5 => {
                        // every database handle of the directory goes away while map handles stay
                        // alive (a helper that returns only the map): the maps must keep working
                        // and close cleanly without it
                        for d in [cfg.maps[m].dir, 4, 5] {
                            steps.push(Step::DbDrop { d });
                        }
                    }
                    1 | 2 => {
                        extra[e] = Some(m);
                        steps.push(Step::Acquire { h: slot, m: m as u8, via: Via::Clone(h) });
                    }
                    3 => {
                        extra[e] = Some(m);
                        steps.push(Step::Acquire { h: slot, m: m as u8, via: Via::Db(cfg.maps[m].dir) });
                    }
                    _ => {
                        // lookup through a cloned database handle
                        let d2 = 4 + g.rng.below(2) as u8;
                        steps.push(Step::DbClone { d: d2, from: cfg.maps[m].dir });
                        extra[e] = Some(m);
                        steps.push(Step::Acquire { h: slot, m: m as u8, via: Via::Db(d2) });
                    }
                }
            }
            16 => {
                reopen_count += 1;
                let params = if cfg.reopen_params {
                    Some(cfg.maps.iter().map(|_| pick_params(&mut g.rng, g.thorough)).collect())
                } else {
                    None
                };
                let xproc = cfg.xproc_every > 0 && reopen_count % cfg.xproc_every == 0;
                for e in extra.iter_mut() {
                    *e = None;
                }
                for i in iters.iter_mut() {
                    *i = None;
                }
                steps.push(Step::Reopen { params, xproc });
            }
            17 => steps.push(Step::Audit),
            _ => {
                let idxs: Vec<usize> = live[m].iter().copied().collect();
                for i in idxs {
                    steps.push(Step::Del { h, k: a[i].clone(), mode: KeyMode::Ref });
                }
                live[m].clear();
                for it in iters.iter_mut() {
                    if *it == Some(m) {
                        *it = None;
                    }
                }
            }
        }
        // an update of map m invalidates its live iterators (the runner drops them too)
        if steps.last().map(|s| s.is_update()).unwrap_or(false) {
            for i in iters.iter_mut() {
                if *i == Some(m) {
                    *i = None;
                }
            }
        }
    }
    steps
}

pub fn buggify(g: &mut Gen, seed: u64) -> Option<BuggifyCfg> {
    if g.rng.chance(3, 10) {
        Some(BuggifyCfg {
            seed: mix(&[seed, 0xb066]),
            short_write: *g.rng.pick(&[0u32, 30, 150]),
            short_read: *g.rng.pick(&[0u32, 30, 150]),
            eintr: *g.rng.pick(&[0u32, 20, 100]),
            kinds: [g.rng.chance(2, 3), g.rng.chance(2, 3), g.rng.chance(2, 3)],
        })
    } else {
        None
    }
}
