//! Independent reader of the on-disk format, written from the layout comments in
//! htx.rs / key.rs / val.rs and the vu64 format table only.  Shares no code with the crate:
//! own vu64 codec, own size-class table, own placement hash.
//!
//! Input: three file images.  Output: the decoded structure (buckets, chains, slots, free
//! lists, recovered key -> value map) or the first inconsistency found, by class.

use crate::kernel::Img;
use std::collections::{BTreeMap, BTreeSet};

pub const HTX_HEADER: u64 = 128;
pub const REC_HEADER: u64 = 192;
pub const KEY_FREE_BASE: u64 = 48;
pub const VAL_FREE_BASE: u64 = 32;
pub const CLASSES: [u32; 16] =
    [16, 24, 32, 48, 64, 80, 96, 112, 128, 256, 384, 512, 640, 768, 896, 1024];
pub const SIG_HTX: &[u8; 8] = b"abysdbH\0";
pub const SIG_KEY: &[u8; 8] = b"abysdbK\0";
pub const SIG_VAL: &[u8; 8] = b"abysdbV\0";

// ---------------- vu64 (own implementation from the format table) ----------------
// prefix of n-1 one bits, a zero bit, then the low bits of the value; the remaining
// bytes hold the higher bits, least significant byte first.  8- and 9-byte forms: 0xFE /
// 0xFF followed by 7 / 8 little-endian bytes.

pub fn vu64_len(v: u64) -> usize {
    let bits = 64 - v.leading_zeros() as usize;
    match bits {
        0..=7 => 1,
        8..=14 => 2,
        15..=21 => 3,
        22..=28 => 4,
        29..=35 => 5,
        36..=42 => 6,
        43..=49 => 7,
        50..=56 => 8,
        _ => 9,
    }
}

pub fn vu64_encode(v: u64) -> Vec<u8> {
    let n = vu64_len(v);
    let mut out = Vec::with_capacity(n);
    if n == 1 {
        out.push(v as u8);
    } else if n <= 7 {
        let low_bits = 8 - n; // bits of the value stored in the first byte
        let prefix: u8 = (0xFFu16 << (9 - n)) as u8; // n-1 ones followed by zeros
        let first = prefix | ((v & ((1u64 << low_bits) - 1)) as u8);
        out.push(first);
        let mut rest = v >> low_bits;
        for _ in 0..n - 1 {
            out.push(rest as u8);
            rest >>= 8;
        }
    } else if n == 8 {
        out.push(0xFE);
        out.extend_from_slice(&v.to_le_bytes()[..7]);
    } else {
        out.push(0xFF);
        out.extend_from_slice(&v.to_le_bytes());
    }
    out
}

/// decode at `off`; returns (value, encoded length); None if truncated
pub fn vu64_decode(img: &Img, off: u64) -> Option<(u64, usize)> {
    let b0 = img.byte(off)?;
    let n = b0.leading_ones() as usize + 1;
    if off + n as u64 > img.len {
        return None;
    }
    if n == 1 {
        return Some((b0 as u64, 1));
    }
    let follow = img.get(off + 1, n - 1);
    if follow.len() != n - 1 {
        return None;
    }
    let mut rest = 0u64;
    for (i, b) in follow.iter().enumerate() {
        rest |= (*b as u64) << (8 * i);
    }
    if n <= 7 {
        let low_bits = 8 - n;
        let low = (b0 as u64) & ((1u64 << low_bits) - 1);
        Some(((rest << low_bits) | low, n))
    } else {
        Some((rest, n))
    }
}

// ---------------- placement hash (own implementation from the documentation) ----------------

fn xorshift(mut x: u64) -> u64 {
    x ^= x >> 12;
    x ^= x << 25;
    x ^= x >> 27;
    x
}

fn fold(mut h: u64, bytes: &[u8]) -> u64 {
    for ch in bytes.chunks(8) {
        let mut a = 0u64;
        for b in ch {
            a = (a << 8) | *b as u64;
        }
        h = xorshift(h.wrapping_add(a));
    }
    h
}

/// documented placement: the 8-byte length prefix (native byte order) is folded first,
/// then the key bytes, 8 bytes at a time, big-endian.
pub fn placement_hash(key: &[u8]) -> u64 {
    let h = fold(0, &(key.len() as u64).to_ne_bytes());
    fold(h, key)
}

pub fn bucket_of(key: &[u8], buckets: u64) -> u64 {
    placement_hash(key) % buckets
}

pub fn class_index(size: u32) -> usize {
    for (i, &c) in CLASSES.iter().enumerate() {
        if c == size && i < 15 {
            return i;
        }
    }
    15
}

/// slot size the documented rounding gives for an encoded record length
pub fn roundup(len: u32) -> u32 {
    for &c in CLASSES.iter().take(15) {
        if len <= c {
            return c;
        }
    }
    ((len + 128) / 128) * 128
}

pub fn valid_slot_size(size: u32) -> bool {
    size > 0 && size % 8 == 0 && (CLASSES[..15].contains(&size) || size >= 1024)
}

// ---------------- result types ----------------

#[derive(Clone, Debug, PartialEq)]
pub struct Bad {
    /// inconsistency class (stable identifiers used in signatures)
    pub class: &'static str,
    pub detail: String,
}

fn bad<T>(class: &'static str, detail: String) -> Result<T, Bad> {
    Err(Bad { class, detail })
}

#[derive(Clone, Debug)]
pub struct Slot {
    pub off: u64,
    pub size: u32,
}

#[derive(Clone, Debug)]
pub struct KeyRec {
    pub off: u64,
    pub size: u32,
    pub key: Vec<u8>,
    pub val_off: u64,
    pub next: u64,
    pub enc_len: u32,
    pub bucket: u64,
    pub pos_in_chain: usize,
}

#[derive(Clone, Debug)]
pub struct ValRec {
    pub off: u64,
    pub size: u32,
    pub len: u32,
    pub enc_len: u32,
}

#[derive(Clone, Debug, Default)]
pub struct Decoded {
    pub sig2: [u8; 8],
    pub buckets: u64,
    pub count: u64,
    pub nonempty_buckets: u64,
    pub chains: Vec<(u64, Vec<u64>)>, // (bucket, key record offsets) for non-empty buckets
    pub keys: Vec<KeyRec>,            // live key records in bucket order
    pub vals: BTreeMap<u64, ValRec>,  // live value records by offset
    pub key_slots: Vec<Slot>,
    pub val_slots: Vec<Slot>,
    pub key_free: Vec<Vec<u64>>, // 16 lists of slot offsets
    pub val_free: Vec<Vec<u64>>,
    pub map: BTreeMap<Vec<u8>, Vec<u8>>,
    pub key_len: u64,
    pub val_len: u64,
    pub htx_len: u64,
    pub nonzero_padding: u64,
    pub max_chain: usize,
    /// storage-accounting inconsistencies (a slot neither live nor free, a free slot on the
    /// list of another class or on two lists): the structure is still readable, so these are
    /// reported separately and only property C06 turns them into violations
    pub accounting: Vec<Bad>,
}

fn check_header(img: &Img, sig1: &[u8; 8], what: &'static str, hdr: u64) -> Result<[u8; 8], Bad> {
    if img.len < hdr {
        return bad("bad-header", format!("{what}: file length {} < header {}", img.len, hdr));
    }
    let s1 = img.get(0, 8);
    if s1 != sig1 {
        return bad("bad-signature", format!("{what}: signature1 {:02x?}", s1));
    }
    let s2 = img.get(8, 8);
    let mut a = [0u8; 8];
    a.copy_from_slice(&s2);
    Ok(a)
}

fn walk_slots(img: &Img, what: &'static str) -> Result<Vec<Slot>, Bad> {
    let mut v = Vec::new();
    let mut off = REC_HEADER;
    while off < img.len {
        let (sz8, _) = match vu64_decode(img, off) {
            Some(x) => x,
            None => return bad("slot-walk", format!("{what}: truncated size field at {off}")),
        };
        let size = sz8.saturating_mul(8);
        if size == 0 || size > u32::MAX as u64 {
            return bad("slot-walk", format!("{what}: slot at {off} has size {size} (gap/garbage)"));
        }
        if !valid_slot_size(size as u32) {
            return bad("slot-size", format!("{what}: slot at {off} has non-class size {size}"));
        }
        if off + size > img.len {
            return bad(
                "slot-walk",
                format!("{what}: slot at {off} size {size} runs past EOF {}", img.len),
            );
        }
        v.push(Slot { off, size: size as u32 });
        off += size;
    }
    if off != img.len {
        return bad("slot-walk", format!("{what}: walk ends at {off}, EOF {}", img.len));
    }
    Ok(v)
}

fn free_lists(
    img: &Img,
    base: u64,
    slots: &BTreeMap<u64, u32>,
    what: &'static str,
    accounting: &mut Vec<Bad>,
) -> Result<Vec<Vec<u64>>, Bad> {
    let mut all: BTreeSet<u64> = BTreeSet::new();
    let mut lists = Vec::new();
    for i in 0..16usize {
        let mut l = Vec::new();
        let mut cur = img.u64_le(base + 8 * i as u64).unwrap_or(0);
        while cur != 0 {
            let size = match slots.get(&cur) {
                Some(s) => *s,
                None => {
                    return bad(
                        "free-not-slot",
                        format!("{what}: free list {i} entry {cur} is not a slot start"),
                    )
                }
            };
            if !all.insert(cur) {
                if l.contains(&cur) {
                    return bad("free-cycle", format!("{what}: free list {i} cycles at slot {cur}"));
                }
                accounting.push(Bad { class: "free-double", detail: format!("{what}: slot {cur} on two free lists (again on list {i})") });
                break;
            }
            if class_index(size) != i || (i < 15 && CLASSES[i] != size) {
                accounting.push(Bad { class: "free-wrong-class", detail: format!("{what}: slot {cur} of size {size} on free list {i}") });
            }
            // free slot layout: size, one zero byte (length 0), u64 LE next
            let (_, szl) = vu64_decode(img, cur).unwrap();
            let lb = img.byte(cur + szl as u64).unwrap_or(0xFF);
            if lb != 0 {
                return bad(
                    "free-format",
                    format!("{what}: free slot {cur} has length byte {lb:#x}"),
                );
            }
            let next = match img.u64_le(cur + szl as u64 + 1) {
                Some(n) => n,
                None => return bad("free-format", format!("{what}: free slot {cur} truncated")),
            };
            l.push(cur);
            if l.len() > slots.len() {
                return bad("free-cycle", format!("{what}: free list {i} cycles"));
            }
            cur = next;
        }
        lists.push(l);
    }
    Ok(lists)
}

/// Decode and cross-check the three files of one map.
pub fn decode(htx: &Img, key: &Img, val: &Img) -> Result<Decoded, Bad> {
    let mut d = Decoded::default();
    let s_h = check_header(htx, SIG_HTX, "htx", HTX_HEADER)?;
    let s_k = check_header(key, SIG_KEY, "key", REC_HEADER)?;
    let s_v = check_header(val, SIG_VAL, "val", REC_HEADER)?;
    if s_h != s_k || s_h != s_v {
        return bad(
            "bad-signature",
            format!("type signatures differ: htx {:02x?} key {:02x?} val {:02x?}", s_h, s_k, s_v),
        );
    }
    d.sig2 = s_h;
    d.htx_len = htx.len;
    d.key_len = key.len;
    d.val_len = val.len;
    let n = htx.u64_le(16).unwrap();
    d.count = htx.u64_le(24).unwrap();
    if n == 0 || n & (n - 1) != 0 {
        return bad("bad-header", format!("htx: bucket count {n} is not a power of two"));
    }
    d.buckets = n;
    if key.u64_le(16) != Some(0) || val.u64_le(16) != Some(0) {
        return bad("bad-header", "key/val: reserved field at 16 is not zero".into());
    }
    let table_end = HTX_HEADER + 8 * n;
    if htx.len < table_end {
        return bad("bad-header", format!("htx: length {} < table end {}", htx.len, table_end));
    }
    let bitmap_bytes = (n + 7) / 8;
    if htx.len > table_end + bitmap_bytes.max(n / 8) {
        return bad(
            "bad-header",
            format!("htx: length {} beyond table+bitmap {}", htx.len, table_end + bitmap_bytes),
        );
    }

    // ---- slots of both record files
    d.key_slots = walk_slots(key, "key")?;
    d.val_slots = walk_slots(val, "val")?;
    let kslots: BTreeMap<u64, u32> = d.key_slots.iter().map(|s| (s.off, s.size)).collect();
    let vslots: BTreeMap<u64, u32> = d.val_slots.iter().map(|s| (s.off, s.size)).collect();
    let mut accounting: Vec<Bad> = Vec::new();
    d.key_free = free_lists(key, KEY_FREE_BASE, &kslots, "key", &mut accounting)?;
    d.val_free = free_lists(val, VAL_FREE_BASE, &vslots, "val", &mut accounting)?;
    let kfree: BTreeSet<u64> = d.key_free.iter().flatten().copied().collect();
    let vfree: BTreeSet<u64> = d.val_free.iter().flatten().copied().collect();

    // ---- buckets and chains (only pages that exist can hold non-zero heads)
    let mut heads: Vec<(u64, u64)> = Vec::new();
    {
        let first_pg = HTX_HEADER / 4096;
        for (pi, pg) in htx.nonzero_pages() {
            if pi < first_pg {
                continue;
            }
            let base = pi * 4096;
            if base >= table_end {
                break;
            }
            // bucket entries are 8-byte aligned relative to 128, hence to the page
            let mut o = 0usize;
            while o < 4096 {
                let abs = base + o as u64;
                if abs >= HTX_HEADER && abs + 8 <= table_end {
                    let mut b = [0u8; 8];
                    b.copy_from_slice(&pg[o..o + 8]);
                    let v = u64::from_le_bytes(b);
                    if v != 0 {
                        heads.push(((abs - HTX_HEADER) / 8, v));
                    }
                }
                o += 8;
            }
        }
    }
    let mut live_keys: BTreeSet<u64> = BTreeSet::new();
    let mut used_vals: BTreeMap<u64, u64> = BTreeMap::new();
    for (b, head) in &heads {
        let mut chain = Vec::new();
        let mut cur = *head;
        while cur != 0 {
            let size = match kslots.get(&cur) {
                Some(s) => *s,
                None => {
                    return bad(
                        "chain-not-slot",
                        format!("bucket {b}: key offset {cur} is out of bounds / not a slot start"),
                    )
                }
            };
            if !live_keys.insert(cur) {
                return bad("chain-cycle", format!("bucket {b}: key record {cur} reached twice"));
            }
            if kfree.contains(&cur) {
                return bad("live-and-free", format!("key slot {cur} is chained and on a free list"));
            }
            let (_, szl) = vu64_decode(key, cur).unwrap();
            let mut p = cur + szl as u64;
            let (klen, l1) = vu64_decode(key, p)
                .ok_or(Bad { class: "record-format", detail: format!("key record {cur}: truncated") })?;
            p += l1 as u64;
            if p + klen > cur + size as u64 {
                return bad(
                    "record-exceeds-slot",
                    format!("key record {cur}: key length {klen} exceeds slot of {size}"),
                );
            }
            let kbytes = key.get(p, klen as usize);
            p += klen;
            let (vo8, l2) = vu64_decode(key, p)
                .ok_or(Bad { class: "record-format", detail: format!("key record {cur}: truncated") })?;
            p += l2 as u64;
            let (nx8, l3) = vu64_decode(key, p)
                .ok_or(Bad { class: "record-format", detail: format!("key record {cur}: truncated") })?;
            p += l3 as u64;
            let enc = (p - cur) as u32;
            if enc > size {
                return bad(
                    "record-exceeds-slot",
                    format!("key record {cur}: encoded length {enc} > slot {size}"),
                );
            }
            let pad = key.get(p, (cur + size as u64 - p) as usize);
            if pad.iter().any(|&x| x != 0) {
                d.nonzero_padding += 1;
            }
            let val_off = vo8 * 8;
            let next = nx8 * 8;
            let hb = bucket_of(&kbytes, n);
            if hb != *b {
                return bad(
                    "wrong-bucket",
                    format!(
                        "key {:02x?} (len {}) found in bucket {b}, placement hash says {hb}",
                        &kbytes[..kbytes.len().min(16)],
                        kbytes.len()
                    ),
                );
            }
            if d.map.contains_key(&kbytes) {
                return bad(
                    "duplicate-key",
                    format!("key {:02x?} appears twice", &kbytes[..kbytes.len().min(16)]),
                );
            }
            // value record
            let vsize = match vslots.get(&val_off) {
                Some(s) => *s,
                None => {
                    return bad(
                        "value-not-slot",
                        format!("key record {cur}: value offset {val_off} out of bounds / not a slot start"),
                    )
                }
            };
            if let Some(other) = used_vals.insert(val_off, cur) {
                return bad(
                    "value-shared",
                    format!("value slot {val_off} referenced by key records {other} and {cur}"),
                );
            }
            if vfree.contains(&val_off) {
                return bad("live-and-free", format!("value slot {val_off} is in use and on a free list"));
            }
            let (_, vszl) = vu64_decode(val, val_off).unwrap();
            let mut q = val_off + vszl as u64;
            let (vlen, vl1) = vu64_decode(val, q).ok_or(Bad {
                class: "record-format",
                detail: format!("value record {val_off}: truncated"),
            })?;
            q += vl1 as u64;
            let venc = (q - val_off) + vlen;
            if venc > vsize as u64 {
                return bad(
                    "record-exceeds-slot",
                    format!("value record {val_off}: encoded length {venc} > slot {vsize}"),
                );
            }
            let vbytes = val.get(q, vlen as usize);
            let vpad = val.get(q + vlen, (val_off + vsize as u64 - q - vlen) as usize);
            if vpad.iter().any(|&x| x != 0) {
                d.nonzero_padding += 1;
            }
            d.vals.insert(
                val_off,
                ValRec { off: val_off, size: vsize, len: vlen as u32, enc_len: venc as u32 },
            );
            d.map.insert(kbytes.clone(), vbytes);
            d.keys.push(KeyRec {
                off: cur,
                size,
                key: kbytes,
                val_off,
                next,
                enc_len: enc,
                bucket: *b,
                pos_in_chain: chain.len(),
            });
            chain.push(cur);
            cur = next;
        }
        d.max_chain = d.max_chain.max(chain.len());
        d.chains.push((*b, chain));
    }
    d.nonempty_buckets = heads.len() as u64;

    // ---- bitmap: every non-empty bucket flagged (and, as written by the format, no stale flag)
    for (b, _) in &heads {
        let byte = htx.byte(table_end + b / 8).unwrap_or(0);
        if byte & (1 << (b % 8)) == 0 {
            return bad("bitmap-missing", format!("bucket {b} is non-empty but not flagged in the bitmap"));
        }
    }

    // ---- item count
    if d.count != d.keys.len() as u64 {
        return bad(
            "count-mismatch",
            format!("stored item count {} != reachable keys {}", d.count, d.keys.len()),
        );
    }

    // ---- conservation: every slot is live xor free
    for s in &d.key_slots {
        let l = live_keys.contains(&s.off);
        let f = kfree.contains(&s.off);
        if !l && !f {
            accounting.push(Bad { class: "orphan-slot", detail: format!("key slot {} (size {}) is neither live nor free", s.off, s.size) });
        }
    }
    for s in &d.val_slots {
        let l = used_vals.contains_key(&s.off);
        let f = vfree.contains(&s.off);
        if !l && !f {
            accounting.push(Bad { class: "orphan-slot", detail: format!("value slot {} (size {}) is neither live nor free", s.off, s.size) });
        }
    }
    d.accounting = accounting;
    Ok(d)
}

/// stale bitmap flags (flag set, bucket empty): legal for the scan, reported as a probe only
pub fn stale_bitmap_flags(htx: &Img, d: &Decoded) -> u64 {
    let table_end = HTX_HEADER + 8 * d.buckets;
    let nonempty: BTreeSet<u64> = d.chains.iter().map(|(b, _)| *b).collect();
    let mut stale = 0;
    let mut off = table_end;
    while off < htx.len {
        let byte = htx.byte(off).unwrap_or(0);
        if byte != 0 {
            for bit in 0..8 {
                if byte & (1 << bit) != 0 && !nonempty.contains(&((off - table_end) * 8 + bit)) {
                    stale += 1;
                }
            }
        }
        off += 1;
    }
    stale
}

/// shape signature of a decoded state (for the distinct-state measure)
pub fn shape_signature(d: &Decoded) -> u64 {
    let mut h = 0xcbf2_9ce4_8422_2325u64;
    let mut put = |v: u64| {
        h = (h ^ v).wrapping_mul(0x100_0000_01b3);
        h ^= h >> 32;
    };
    put(d.buckets);
    let mut hist = [0u64; 8];
    for (_, c) in &d.chains {
        hist[c.len().min(7)] += 1;
    }
    for x in hist {
        put(x);
    }
    let mut kl = [0u64; 16];
    let mut vl = [0u64; 16];
    for k in &d.keys {
        kl[class_index(k.size)] += 1;
    }
    for v in d.vals.values() {
        vl[class_index(v.size)] += 1;
    }
    for i in 0..16 {
        put(kl[i]);
        put(vl[i]);
        put(d.key_free[i].len() as u64);
        put(d.val_free[i].len() as u64);
    }
    put(vu64_len(d.key_len / 8) as u64);
    put(vu64_len(d.val_len / 8) as u64);
    h
}

#[cfg(test)]
mod tests {
    use super::*;
    #[test]
    fn vu64_roundtrip() {
        let mut vals = vec![0u64, 1, 127, 128, 0x3FFF, 0x4000, 0x0f0f, u64::MAX];
        for k in 0..64 {
            vals.push(1u64 << k);
            vals.push((1u64 << k).wrapping_sub(1));
            vals.push((1u64 << k) + 1);
        }
        for v in vals {
            let e = vu64_encode(v);
            assert_eq!(e.len(), vu64_len(v));
            let img = Img::from_bytes(&e);
            assert_eq!(vu64_decode(&img, 0), Some((v, e.len())), "v={v:#x} enc={e:02x?}");
        }
        assert_eq!(vu64_encode(0x0f0f), vec![0x8F, 0x3c]);
    }
}
