mod alloc;
mod coord;
mod worker;
mod decoder;
mod gen;
mod golden;
mod handles;
mod kernel;
mod ops;
mod oracles;
mod profiles;
mod rng;
mod runner;
mod selftest;
mod xproc;

#[global_allocator]
static GLOBAL: alloc::Poisoning = alloc::Poisoning;

use profiles::Tier;

fn scratch_root() -> String {
    let base = std::env::var("ABYSIM_TMP").unwrap_or_else(|_| "/tmp".to_string());
    let root = format!("{}/abysim.{}", base, std::process::id());
    for d in ["d0", "d1", "d2", "e0", "e1", "e2", "x0"] {
        std::fs::create_dir_all(format!("{root}/{d}")).expect("create scratch dir");
    }
    root
}

fn main() {
    let args: Vec<String> = std::env::args().collect();
    let cmd = args.get(1).map(|s| s.as_str()).unwrap_or("");
    match cmd {
        "dev" => {
            // dev <prop> <n> [seed]
            let prop = args[2].clone();
            let n: u64 = args[3].parse().unwrap();
            let seed: u64 = args.get(4).map(|s| s.parse().unwrap()).unwrap_or(1);
            let root = scratch_root();
            kernel::install(&root, kernel::Mode::Sim);
            runner::install_panic_hook();
            let env = runner::Env { root: root.clone(), verbose: false, allow_xproc: false, exe: args[0].clone() };
            let t0 = std::time::Instant::now();
            let mut viol = 0;
            let mut inconc = 0;
            let mut sigs = std::collections::BTreeMap::new();
            let mut calls = 0u64;
            for i in 0..n {
                for ep in profiles::episodes(&prop, Tier::Quick, seed, i) {
                    if std::env::var("ABYSIM_TRACE").is_ok() { eprintln!("run {i} {} maps={:?} steps={}", ep.profile, ep.maps, ep.steps.len()); }
                    let out = oracles::run(&ep, &env);
                    calls += out.stats.api_calls;
                    if let Some(v) = out.violation {
                        viol += 1;
                        let e = sigs.entry(v.signature.clone()).or_insert((0u64, i, v.detail.clone(), ep.steps.len()));
                        e.0 += 1;
                    }
                    if out.inconclusive.is_some() {
                        inconc += 1;
                    }
                }
            }
            println!("runs={n} violations={viol} inconclusive={inconc} api_calls={calls} wall={:?}", t0.elapsed());
            for (s, (c, i, d, l)) in sigs {
                println!("{c:6} {s}  first at index {i} ({l} steps): {d}");
            }
            let _ = std::fs::remove_dir_all(&root);
        }
        "golden-gen" => std::process::exit(golden::golden_gen(&args[2])),
        "worker" => worker::worker_main(&args[2..]),
        "exec" => worker::exec_main(&args[2..]),
        "xproc" => {
            let code = match args[2].as_str() {
                "dump" => xproc::dump_main(&args[3], &args[4]),
                "runb" => xproc::runb_main(&args[3], &args[4]),
                "killrun" => xproc::killrun_main(&args[3], args[4].parse().unwrap()),
                _ => 2,
            };
            std::process::exit(code);
        }
        "selftest" => std::process::exit(selftest::main(&args[2..])),
        "replay" => std::process::exit(coord::replay_main(&args[2])),
        "check" => {
            // check <prop> <quick|thorough>
            let prop = args[2].clone();
            let tier = if args.get(3).map(|s| s.as_str()) == Some("thorough") { Tier::Thorough } else { Tier::Quick };
            let tier = match std::env::var("VERIF_TIER").ok().as_deref() {
                Some("thorough") => Tier::Thorough,
                Some("quick") => Tier::Quick,
                _ => tier,
            };
            let seed: u64 = std::env::var("VERIF_SEED").ok().and_then(|s| s.parse().ok()).unwrap_or(1);
            println!("VERIF_SEED={seed} property={prop} tier={}", tier.name());
            let workers = std::env::var("ABYSIM_WORKERS").ok().and_then(|s| s.parse().ok()).unwrap_or(16);
            let evaluations = std::env::var("ABYSIM_EVALS").ok().and_then(|s| s.parse().ok()).unwrap_or(profiles::budget(&prop, tier));
            let wall = std::env::var("ABYSIM_WALL").ok().and_then(|s| s.parse().ok()).unwrap_or(if tier == Tier::Quick { 45u64 } else { 480 });
            let cfg = coord::CheckCfg {
                prop: prop.clone(), tier, seed, workers, evaluations,
                wall_cap: std::time::Duration::from_secs(wall),
                cpu_budget: std::env::var("ABYSIM_CPU").ok().and_then(|s| s.parse().ok()).unwrap_or(if tier == Tier::Quick { 20 } else { 120 }),
                write_evidence: true, quiet: false, flavour: String::new(),
            };
            let mut r = coord::run_check(&cfg);
            // second pass: the same episodes' first fifth under the debug-assertions flavour
            if std::env::var("ABYSIM_NO_DBG").is_err() && r.exit != 2 {
                if coord::dbg_exe().is_some() {
                    let cfg2 = coord::CheckCfg { evaluations: (evaluations / 10).max(1), wall_cap: std::time::Duration::from_secs(wall / 2 + 5), flavour: "dbg".into(), ..cfg };
                    let r2 = coord::run_check(&cfg2);
                    let c2 = r2.evidence["coverage"].clone();
                    r.evidence["coverage"]["debug_assertions_flavour"] = serde_json::json!({
                        "what": "the same episode families (first tenth of the indices) executed by a build of crate + harness with debug assertions and overflow checks enabled",
                        "evaluations": c2["evaluations"], "episodes_executed": c2["episodes_executed"], "api_calls": c2["api_calls"],
                        "inconclusive_runs": c2["inconclusive_runs"], "violation_signatures": c2["violation_signatures"], "distinct_nontrivial": c2["distinct_nontrivial"],
                    });
                    let v = r.evidence["violations"].as_u64().unwrap_or(0) + r2.evidence["violations"].as_u64().unwrap_or(0);
                    r.evidence["violations"] = serde_json::json!(v);
                    let w = r.evidence["wall_s"].as_f64().unwrap_or(0.0) + r2.evidence["wall_s"].as_f64().unwrap_or(0.0);
                    r.evidence["wall_s"] = serde_json::json!(w);
                    if r2.exit > r.exit || (r2.exit == 1 && r.exit != 1) {
                        r.exit = if r.exit == 1 || r2.exit == 1 { 1 } else { r2.exit };
                    }
                } else {
                    r.evidence["coverage"]["debug_assertions_flavour"] = serde_json::json!("not built");
                }
            }
            // C07 thorough: the crate rebuilt under its alternative buffer-policy feature sets
            if prop == "C07" && tier == Tier::Thorough && r.exit != 2 {
                let mut alts = serde_json::Map::new();
                for name in coord::ALT_FLAVOURS {
                    if coord::alt_exe(name).is_none() {
                        alts.insert(name.to_string(), serde_json::json!("not built"));
                        continue;
                    }
                    let cfg3 = coord::CheckCfg {
                        prop: prop.clone(), tier, seed, workers, evaluations: (evaluations / 8).max(1),
                        wall_cap: std::time::Duration::from_secs(wall / 4 + 5), cpu_budget: 120,
                        write_evidence: true, quiet: false, flavour: name.to_string(),
                    };
                    let r3 = coord::run_check(&cfg3);
                    let c3 = &r3.evidence["coverage"];
                    alts.insert(name.to_string(), serde_json::json!({"evaluations": c3["evaluations"], "episodes_executed": c3["episodes_executed"], "api_calls": c3["api_calls"], "violation_signatures": c3["violation_signatures"], "probes_eviction": c3["probes"]["cache-eviction-write"]}));
                    let v = r.evidence["violations"].as_u64().unwrap_or(0) + r3.evidence["violations"].as_u64().unwrap_or(0);
                    r.evidence["violations"] = serde_json::json!(v);
                    if r3.exit == 1 {
                        r.exit = 1;
                    } else if r3.exit == 2 && r.exit == 0 {
                        r.exit = 2;
                    }
                }
                r.evidence["coverage"]["alternative_feature_sets"] = serde_json::Value::Object(alts);
            }
            coord::write_evidence(&prop, &r.evidence);
            let c = &r.evidence["coverage"];
            println!("evaluations={} episodes={} distinct_nontrivial={} distinct_states={} inconclusive={} api_calls={} wall_s={:.1} exit={}",
                c["evaluations"], c["episodes_executed"], c["distinct_nontrivial"], c["distinct_states"], c["inconclusive_runs"], c["api_calls"], r.evidence["wall_s"].as_f64().unwrap_or(0.0), r.exit);
            std::process::exit(r.exit);
        }
        _ => eprintln!("usage: abysim check <prop> <tier> | replay <file> | dev <prop> <n> [seed]"),
    }
}
