//! Trust in the machinery itself (DESIGN §4): determinism, stub fidelity (twin run against
//! the real kernel), decoder validity on hand-damaged images.

use crate::coord::{self, CheckCfg};
use crate::decoder;
use crate::golden;
use crate::kernel::{self, Img, KEvent, KOp, Mode};
use crate::ops::*;
use crate::oracles;
use crate::profiles::{self, Tier};
use crate::runner::{self, Env};
use std::time::Duration;

/// the same check under different worker counts must explore exactly the same executions:
/// the digest sums (API-result hash, kernel-trace hash) over every episode
pub fn determinism(props: &[String], evals: u64) -> i32 {
    let mut bad = 0;
    for p in props {
        let mut digests = Vec::new();
        for (workers, seed) in [(3usize, 1u64), (16, 1), (7, 1)] {
            let cfg = CheckCfg { prop: p.clone(), tier: Tier::Quick, seed, workers, evaluations: evals, wall_cap: Duration::from_secs(600), cpu_budget: 60, write_evidence: false, quiet: true, flavour: String::new() };
            let r = coord::run_check(&cfg);
            let c = &r.evidence["coverage"];
            digests.push((workers, c["episode_digest"].as_u64().unwrap_or(0), c["episodes_executed"].as_u64().unwrap_or(0), c["distinct_nontrivial"].as_u64().unwrap_or(0)));
        }
        let same = digests.iter().all(|d| (d.1, d.2, d.3) == (digests[0].1, digests[0].2, digests[0].3));
        println!("determinism {p}: {} {:?}", if same { "identical" } else { "DIFFERENT" }, digests);
        if !same {
            bad += 1;
        }
    }
    if bad > 0 {
        2
    } else {
        0
    }
}

fn clean_real_dirs(root: &str) {
    for d in ["d0", "d1", "d2", "e0", "e1", "e2", "x0"] {
        if let Ok(rd) = std::fs::read_dir(format!("{root}/{d}")) {
            for e in rd.flatten() {
                let _ = std::fs::remove_file(e.path());
            }
        }
    }
}

fn ev_key(e: &KEvent, k: &kernel::Kernel) -> (u8, String, u64, u64, i64) {
    let path = k.inodes.get(e.ino as usize).map(|i| i.path.rsplit('/').next().unwrap_or("").to_string()).unwrap_or_default();
    let ret = if e.op == KOp::Open { 0 } else { e.ret };
    (e.op as u8, path, e.off, e.len, ret)
}

/// one episode on the simulated kernel and on the real kernel (same tracing): a description
/// of the first difference, and the number of kernel calls compared
fn twin_one(ep: &Episode, root_sim: &str, root_real: &str) -> (Option<String>, u64, u64) {
            // simulated
            kernel::install(root_sim, Mode::Sim);
            kernel::with(|k| k.log = Some(Vec::new()));
            let env = Env { root: root_sim.to_string(), verbose: false, allow_xproc: false, exe: String::new() };
            let a = oracles::run(ep, &env);
            let (log_a, imgs_a): (Vec<_>, Vec<(String, Img)>) = kernel::with(|k| {
                let l = k.log.as_ref().unwrap().iter().map(|e| ev_key(e, k)).collect();
                let im = k.paths().into_iter().map(|p| (p.rsplit('/').next().unwrap().to_string(), k.file(&p).unwrap().written.clone())).collect();
                (l, im)
            });
            kernel::uninstall();
            // real kernel, traced
            clean_real_dirs(root_real);
            kernel::install(root_real, Mode::Trace);
            kernel::with(|k| k.log = Some(Vec::new()));
            let env = Env { root: root_real.to_string(), verbose: false, allow_xproc: false, exe: String::new() };
            let b = oracles::run(ep, &env);
            let log_b: Vec<_> = kernel::with(|k| k.log.as_ref().unwrap().iter().map(|e| ev_key(e, k)).collect());
            let paths_b = kernel::with(|k| k.paths());
            kernel::uninstall();
            let imgs_b: Vec<(String, Img)> = paths_b.iter().filter_map(|p| golden::img_from_real_file(p).ok().map(|im| (p.rsplit('/').next().unwrap().to_string(), im))).collect();
            let mut problem = None;
            if a.result_hash != b.result_hash || a.violation.as_ref().map(|v| &v.signature) != b.violation.as_ref().map(|v| &v.signature) {
                problem = Some(format!("API results differ (violations {:?} / {:?})", a.violation.map(|v| v.signature), b.violation.map(|v| v.signature)));
            } else if log_a != log_b {
                let pos = log_a.iter().zip(log_b.iter()).position(|(x, y)| x != y).unwrap_or(log_a.len().min(log_b.len()));
                problem = Some(format!("kernel-call sequences differ at event {pos}: sim {:?} real {:?} (lengths {} / {})", log_a.get(pos), log_b.get(pos), log_a.len(), log_b.len()));
            } else {
                let mut ia = imgs_a.clone();
                let mut ib = imgs_b.clone();
                ia.sort_by(|x, y| x.0.cmp(&y.0));
                ib.sort_by(|x, y| x.0.cmp(&y.0));
                if ia.len() != ib.len() || ia.iter().zip(ib.iter()).any(|(x, y)| x.0 != y.0 || x.1 != y.1) {
                    problem = Some("final file bytes differ".to_string());
                }
            }
            // writes / truncates that were refused or shortened
            let odd = log_a.iter().filter(|e| (e.0 == KOp::Write as u8 && (e.4 < 0 || (e.4 as u64) < e.3)) || (e.0 == KOp::Ftruncate as u8 && e.4 < 0)).count() as u64;
            (problem, log_a.len() as u64, odd)
}

/// same episodes once on the simulated kernel and once on the real kernel with the same
/// tracing: API results, the complete kernel-call sequence and the final bytes must agree
pub fn twin(n: u64) -> i32 {
    let root_sim = crate::worker::scratch_root("ts");
    let root_real = crate::worker::scratch_root("tr");
    runner::install_panic_hook();
    let mut bad = 0;
    let mut compared = 0u64;
    let mut events = 0u64;
    for i in 0..n {
        const SHAPES: [&str; 14] = ["C01", "C02", "C05", "C11", "C14", "C03", "C04", "C06", "C08", "C09", "C10", "C15", "C17", "C07"];
        let prop = SHAPES[(i % SHAPES.len() as u64) as usize];
        for mut ep in profiles::episodes(prop, Tier::Quick, 4242, i) {
            ep.buggify = None;
            ep.faults.clear();
            ep.checks = Checks { model: true, audit_every: 50, ..Default::default() };
            for s in ep.steps.iter_mut() {
                if let Step::Reopen { xproc, .. } = s {
                    *xproc = false;
                }
            }
            let (problem, n_ev, _) = twin_one(&ep, &root_sim, &root_real);
            compared += 1;
            events += n_ev;
            if let Some(p) = problem {
                bad += 1;
                println!("twin mismatch at {prop} index {i}: {p}");
            }
        }
    }
    clean_real_dirs(&root_real);
    let _ = std::fs::remove_dir_all(&root_sim);
    let _ = std::fs::remove_dir_all(&root_real);
    println!("twin: {compared} episodes, {events} kernel calls compared call by call with the real kernel, {bad} mismatches");
    if bad > 0 {
        2
    } else {
        0
    }
}

/// the simulated size-cap fault against the real thing: the size-cap episodes derived for C16
/// (cap placed at the start / inside / at the last byte of each write of the flush under test)
/// run once on the simulated kernel and once on the real kernel under a real RLIMIT_FSIZE
/// (SIGXFSZ ignored). The real limit is per process, so the cap applies to all three files in
/// both runs. API results, kernel-call sequence (incl. short counts and EFBIG) and final bytes
/// must agree.
pub fn twin_cap(n: u64) -> i32 {
    let root_sim = crate::worker::scratch_root("cs");
    let root_real = crate::worker::scratch_root("cr");
    runner::install_panic_hook();
    let (mut bad, mut compared, mut events, mut refused, mut with_err) = (0u64, 0u64, 0u64, 0u64, 0u64);
    for i in 0..n {
        for base in profiles::episodes("C16", Tier::Quick, 777, i) {
            kernel::install(&root_sim, Mode::Sim);
            let env = Env { root: root_sim.clone(), verbose: false, allow_xproc: false, exe: String::new() };
            let out = oracles::run(&base, &env);
            kernel::uninstall();
            for mut ep in profiles::derive("C16", Tier::Quick, &base, &out) {
                if ep.profile != "size-cap" {
                    continue;
                }
                ep.buggify = None;
                ep.faults.clear();
                ep.checks = Checks { model: true, fault_report: true, audit_every: 50, ..Default::default() };
                for s in ep.steps.iter_mut() {
                    match s {
                        Step::Reopen { xproc, .. } => *xproc = false,
                        Step::Cap { file, .. } => file.clear(),
                        _ => {}
                    }
                }
                let (problem, n_ev, odd) = twin_one(&ep, &root_sim, &root_real);
                compared += 1;
                events += n_ev;
                refused += odd;
                with_err += (odd > 0) as u64;
                if let Some(p) = problem {
                    bad += 1;
                    println!("twin-cap mismatch at index {i}: {p}");
                }
            }
        }
    }
    kernel::real_fsize_limit(None);
    clean_real_dirs(&root_real);
    let _ = std::fs::remove_dir_all(&root_sim);
    let _ = std::fs::remove_dir_all(&root_real);
    println!("twin-cap: {compared} size-cap episodes, {events} kernel calls compared call by call with the real kernel under RLIMIT_FSIZE ({refused} refused or shortened writes/truncates in {with_err} episodes), {bad} mismatches");
    if bad > 0 || with_err == 0 {
        2
    } else {
        0
    }
}

/// the decoder must name the right inconsistency class on hand-damaged images
pub fn decoder_cases() -> i32 {
    let (_, imgs) = match golden::load_golden("bytes-chains") {
        Some(x) => x,
        None => {
            println!("decoder selftest: golden bytes-chains missing");
            return 2;
        }
    };
    let d = decoder::decode(&imgs[0], &imgs[1], &imgs[2]).expect("golden decodes");
    let table_end = decoder::HTX_HEADER + 8 * d.buckets;
    let (b0, chain0) = d.chains.iter().find(|(_, c)| c.len() >= 3).cloned().expect("chain >= 3");
    let k_first = d.keys.iter().find(|k| k.off == chain0[0]).unwrap().clone();
    let k_last = d.keys.iter().find(|k| k.off == *chain0.last().unwrap()).unwrap().clone();
    let free_val = d.val_free.iter().flatten().next().copied();
    let mut cases: Vec<(&str, [Img; 3])> = Vec::new();
    let mut with = |name: &'static str, f: &dyn Fn(&mut [Img; 3])| {
        let mut c = imgs.clone();
        f(&mut c);
        cases.push((name, c));
    };
    with("bad-signature", &|c| c[1].write_at(3, b"X"));
    with("count-mismatch", &|c| c[0].write_at(24, &(d.count + 1).to_le_bytes()));
    with("bitmap-missing", &|c| {
        let off = table_end + b0 / 8;
        let b = c[0].byte(off).unwrap();
        c[0].write_at(off, &[b & !(1 << (b0 % 8))]);
    });
    with("chain-not-slot", &|c| c[0].write_at(decoder::HTX_HEADER + 8 * b0, &(chain0[0] + 8).to_le_bytes()));
    with("wrong-bucket", &|c| {
        // move the head of the chain to another (empty or not) bucket
        let other = (b0 + 1) % d.buckets;
        c[0].write_at(decoder::HTX_HEADER + 8 * other, &chain0[0].to_le_bytes());
        c[0].write_at(decoder::HTX_HEADER + 8 * b0, &0u64.to_le_bytes());
    });
    with("slot-walk", &|c| {
        // zero the size field of the second key slot
        let s = &d.key_slots[1];
        c[1].write_at(s.off, &[0u8]);
    });
    with("orphan-slot", &|c| {
        // unlink the last record of the chain without freeing it: find its predecessor's next
        let pred = d.keys.iter().find(|k| k.next == k_last.off).unwrap();
        // rewrite predecessor's next field (last vu64 of the record) to 0 if one byte wide
        let end = pred.off + pred.enc_len as u64;
        let w = decoder::vu64_len(k_last.off / 8) as u64;
        let mut z = vec![0u8; w as usize];
        z[0] = 0;
        c[1].write_at(end - w, &z);
        c[0].write_at(24, &(d.count - 1).to_le_bytes());
    });
    if let Some(fv) = free_val {
        with("live-and-free", &|c| {
            // point a key's value offset at a free value slot: encode same width if possible
            let enc_old = decoder::vu64_encode(k_first.val_off / 8);
            let enc_new = decoder::vu64_encode(fv / 8);
            if enc_old.len() == enc_new.len() {
                // value offset field sits right after the key bytes
                let (_, szl) = decoder::vu64_decode(&c[1], k_first.off).unwrap();
                let p = k_first.off + szl as u64;
                let (_, l1) = decoder::vu64_decode(&c[1], p).unwrap();
                c[1].write_at(p + l1 as u64 + k_first.key.len() as u64, &enc_new);
            } else {
                c[2].write_at(0, b"X"); // cannot construct: force another class (reported below)
            }
        });
    }
    with("free-wrong-class", &|c| {
        // put the head of one value free list on another class's list
        if let Some((i, l)) = d.val_free.iter().enumerate().find(|(_, l)| !l.is_empty()) {
            let j = if i == 0 { 1 } else { i - 1 };
            c[2].write_at(decoder::VAL_FREE_BASE + 8 * j as u64, &l[0].to_le_bytes());
            c[2].write_at(decoder::VAL_FREE_BASE + 8 * i as u64, &0u64.to_le_bytes());
        }
    });
    let mut bad = 0;
    for (name, c) in &cases {
        let res = match decoder::decode(&c[0], &c[1], &c[2]) {
            Ok(d) if !d.accounting.is_empty() => Err(d.accounting[0].clone()),
            other => other,
        };
        match res {
            Ok(_) => {
                println!("decoder selftest {name}: damaged image ACCEPTED");
                bad += 1;
            }
            Err(b) => {
                let ok = b.class == *name
                    || (*name == "free-wrong-class" && (b.class == "orphan-slot" || b.class == "free-wrong-class"))
                    || (*name == "live-and-free" && (b.class == "live-and-free" || b.class == "bad-signature"))
                    || (*name == "orphan-slot" && (b.class == "orphan-slot" || b.class == "count-mismatch"));
                println!("decoder selftest {name}: rejected as {} ({}){}", b.class, b.detail, if ok { "" } else { "  <-- unexpected class" });
                if !ok {
                    bad += 1;
                }
            }
        }
    }
    if bad > 0 {
        2
    } else {
        0
    }
}

pub fn main(args: &[String]) -> i32 {
    match args.first().map(|s| s.as_str()) {
        Some("determinism") => {
            let evals = args.get(1).and_then(|s| s.parse().ok()).unwrap_or(1500);
            let props: Vec<String> = if args.len() > 2 { args[2..].to_vec() } else { profiles::ALL_PROPS.iter().map(|s| s.to_string()).collect() };
            determinism(&props, evals)
        }
        Some("twin") => twin(args.get(1).and_then(|s| s.parse().ok()).unwrap_or(400)),
        Some("twin-cap") => twin_cap(args.get(1).and_then(|s| s.parse().ok()).unwrap_or(300)),
        Some("decoder") => decoder_cases(),
        _ => {
            eprintln!("usage: abysim selftest determinism [evals] [props..] | twin [n] | twin-cap [n] | decoder");
            2
        }
    }
}
