//! Worker process: executes evaluations (episode families) for a slice of the run indices
//! and reports over stdout.  A per-run CPU-time timer kills the process when a run hangs;
//! the coordinator learns the index in flight from a shared status cell.

use crate::kernel;
use crate::ops::*;
use crate::oracles;
use crate::profiles::{self, Tier};
use crate::runner::{self, Env, Outcome, RunStats};
use serde_json::json;
use std::collections::BTreeMap;
use std::io::Write;

pub struct Status {
    ptr: *mut u64,
}

impl Status {
    pub fn open(path: &str, create: bool) -> Status {
        use std::os::unix::io::AsRawFd;
        let f = std::fs::OpenOptions::new().read(true).write(true).create(create).open(path).expect("status file");
        if create {
            f.set_len(64).unwrap();
        }
        let p = unsafe { libc::mmap(std::ptr::null_mut(), 64, libc::PROT_READ | libc::PROT_WRITE, libc::MAP_SHARED, f.as_raw_fd(), 0) };
        assert!(p != libc::MAP_FAILED, "mmap status");
        Status { ptr: p as *mut u64 }
    }
    pub fn set(&self, slot: usize, v: u64) {
        unsafe { std::ptr::write_volatile(self.ptr.add(slot), v) }
    }
    pub fn get(&self, slot: usize) -> u64 {
        unsafe { std::ptr::read_volatile(self.ptr.add(slot)) }
    }
}
// slots: 0 = index in flight (+1; 0 = none), 1 = sub-episode, 2 = stop request, 3 = completed count

pub fn arm_cpu_timer(secs: u64) {
    let it = libc::itimerval {
        it_interval: libc::timeval { tv_sec: 0, tv_usec: 0 },
        it_value: libc::timeval { tv_sec: secs as i64, tv_usec: 0 },
    };
    unsafe {
        libc::setitimer(libc::ITIMER_PROF, &it, std::ptr::null_mut());
    }
}

pub fn scratch_root(tag: &str) -> String {
    let base = std::env::var("ABYSIM_TMP").unwrap_or_else(|_| "/tmp".to_string());
    let root = format!("{}/abysim.{}.{}", base, tag, std::process::id());
    for d in ["d0", "d1", "d2", "e0", "e1", "e2", "x0"] {
        std::fs::create_dir_all(format!("{root}/{d}")).expect("create scratch dir");
    }
    root
}

pub fn nontrivial(prop: &str, s: &RunStats) -> bool {
    let p = |n: &str| s.probes.get(n).copied().unwrap_or(0) > 0;
    let f = |n: &str| s.faults.get(n).copied().unwrap_or(0) > 0;
    if s.effective_updates == 0 && prop != "C13" {
        return false;
    }
    match prop {
        "C02" => p("reopen"),
        "C03" => s.crash_points > 0,
        "C04" => s.traversals > 0,
        "C05" => s.decodes > 0,
        "C06" => s.decodes > 0 && (p("file-extended") || p("free-slot-reused-or-released")),
        "C07" => true,
        "C08" => p("key-record-relocated") || p("value-record-relocated") || p("chain>=2"),
        "C09" => p("sentinel-neighbours-compared"),
        "C11" => s.interleave_sig != 0,
        "C12" => p("golden-opened") || s.decodes > 0,
        "C13" => p("foreign-open-refused") || p("matching-open-accepted"),
        "C15" => p("readonly-session-compared"),
        "C16" => f("write-refused") || f("size-cap") || f("fsync-error") || f("partial-write") || f("truncate-refused"),
        "C17" => p("stats-compared"),
        "C18" => p("twice-compared"),
        _ => true,
    }
}

#[derive(Default)]
pub struct Agg {
    pub evaluations: u64,
    pub episodes: u64,
    pub inconclusive: u64,
    pub violations: u64,
    pub api_calls: u64,
    pub steps: u64,
    pub kernel_calls: [u64; kernel::NOPS],
    pub faults: BTreeMap<String, u64>,
    pub probes: BTreeMap<String, u64>,
    pub state_sigs: Vec<u64>,
    pub inter_sigs: Vec<u64>,
    pub case_sigs: Vec<u64>,
    pub episode_digest: u64,
    pub crash_points: u64,
    pub crash_reopens: u64,
    pub decodes: u64,
    pub audits: u64,
    pub traversals: u64,
    pub bytes_written: u64,
    pub effective_updates: u64,
    pub inconclusive_samples: Vec<String>,
}

impl Agg {
    pub fn add(&mut self, prop: &str, out: &Outcome) {
        let s = &out.stats;
        self.episodes += 1;
        self.api_calls += s.api_calls;
        self.steps += s.steps_done;
        for i in 0..kernel::NOPS {
            self.kernel_calls[i] += s.kernel_calls[i];
        }
        for (k, v) in &s.faults {
            *self.faults.entry(k.clone()).or_insert(0) += v;
        }
        for (k, v) in &s.probes {
            *self.probes.entry(k.to_string()).or_insert(0) += v;
        }
        self.state_sigs.extend(s.state_sigs.iter().copied());
        self.inter_sigs.push(s.interleave_sig);
        self.episode_digest = self.episode_digest.wrapping_add(crate::rng::mix(&[out.result_hash, out.trace_hash, out.violation.is_some() as u64]));
        if nontrivial(prop, s) {
            self.case_sigs.push(crate::rng::mix(&[out.result_hash, out.trace_hash]));
        }
        self.crash_points += s.crash_points;
        self.crash_reopens += s.crash_reopens;
        self.decodes += s.decodes;
        self.audits += s.audits;
        self.traversals += s.traversals;
        self.bytes_written += s.bytes_written;
        self.effective_updates += s.effective_updates;
        if let Some(i) = &out.inconclusive {
            self.inconclusive += 1;
            if self.inconclusive_samples.len() < 3 {
                self.inconclusive_samples.push(i.clone());
            }
        }
        if out.violation.is_some() {
            self.violations += 1;
        }
    }
    pub fn to_json(&mut self) -> serde_json::Value {
        self.state_sigs.sort_unstable();
        self.state_sigs.dedup();
        self.inter_sigs.sort_unstable();
        self.inter_sigs.dedup();
        self.case_sigs.sort_unstable();
        self.case_sigs.dedup();
        let v = json!({
            "t": "s",
            "evaluations": self.evaluations, "episodes": self.episodes, "inconclusive": self.inconclusive,
            "violations": self.violations, "api_calls": self.api_calls, "steps": self.steps,
            "kernel_calls": self.kernel_calls.to_vec(), "faults": self.faults, "probes": self.probes,
            "state_sigs": self.state_sigs, "inter_sigs": self.inter_sigs, "case_sigs": self.case_sigs,
            "crash_points": self.crash_points, "crash_reopens": self.crash_reopens, "decodes": self.decodes,
            "audits": self.audits, "traversals": self.traversals, "bytes_written": self.bytes_written,
            "effective_updates": self.effective_updates, "inconclusive_samples": self.inconclusive_samples,
            "episode_digest": self.episode_digest,
        });
        *self = Agg::default();
        v
    }
}

pub fn sample_of(ep: &Episode) -> serde_json::Value {
    let steps: Vec<String> = ep
        .steps
        .iter()
        .take(12)
        .map(|s| match s {
            Step::Put { h, k, v, .. } => format!("put(h{h},{},{})", k.short(), v.short()),
            Step::Get { h, k, .. } => format!("get(h{h},{})", k.short()),
            Step::Del { h, k, .. } => format!("delete(h{h},{})", k.short()),
            other => other.name().to_string(),
        })
        .collect();
    json!({
        "profile": ep.profile, "seed": ep.seed,
        "maps": ep.maps.iter().map(|m| format!("{}:{}:{:?}/{:?}/{:?}/{:?}", m.name, m.kt.name(), m.params.buckets, m.params.htx, m.params.key, m.params.val)).collect::<Vec<_>>(),
        "n_steps": ep.steps.len(), "first_steps": steps, "faults": ep.faults.len(),
        "buggify": ep.buggify.is_some(),
    })
}

/// `abysim worker <prop> <tier> <base_seed> <start> <stride> <end> <status_path> <cpu_budget>`
pub fn worker_main(args: &[String]) {
    let prop = args[0].clone();
    let tier = if args[1] == "thorough" { Tier::Thorough } else { Tier::Quick };
    let base_seed: u64 = args[2].parse().unwrap();
    let start: u64 = args[3].parse().unwrap();
    let stride: u64 = args[4].parse().unwrap();
    let end: u64 = args[5].parse().unwrap();
    let status = Status::open(&args[6], false);
    let cpu_budget: u64 = args[7].parse().unwrap();
    let root = scratch_root("w");
    kernel::install(&root, kernel::Mode::Sim);
    runner::install_panic_hook();
    let env = Env { root: root.clone(), verbose: false, allow_xproc: true, exe: std::env::current_exe().unwrap().to_string_lossy().to_string() };
    let stdout = std::io::stdout();
    let mut agg = Agg::default();
    let mut last_report = std::time::Instant::now();
    let mut samples_sent = 0;
    let mut viol_sent = 0u64;
    let mut i = start;
    while i < end {
        if status.get(2) != 0 {
            break;
        }
        status.set(1, 0);
        status.set(0, i + 1);
        arm_cpu_timer(cpu_budget);
        let fam = match std::panic::catch_unwind(|| profiles::episodes(&prop, tier, base_seed, i)) {
            Ok(f) => f,
            Err(_) => {
                let mut o = stdout.lock();
                let _ = writeln!(o, "{}", json!({"t":"harness-error", "what": format!("episode generation panicked for index {i}")}));
                let _ = o.flush();
                Vec::new()
            }
        };
        let mut j = 0u64;
        let mut queue: std::collections::VecDeque<Episode> = fam.into();
        let mut fam_total = 0u64;
        let mut fam_viol: Vec<(u64, Violation, Episode)> = Vec::new();
        while let Some(ep) = queue.pop_front() {
            status.set(1, j);
            // the CPU budget is per episode, not per family
            arm_cpu_timer(cpu_budget);
            let out = if ep.isolate {
                let mut e2 = ep.clone();
                e2.isolate = false;
                let r = crate::coord::exec_episode(&e2, cpu_budget);
                Outcome { violation: r.violation, inconclusive: r.inconclusive, stats: RunStats::default(), trace_hash: r.trace_hash, result_hash: r.result_hash, sync_events: Vec::new() }
            } else {
                oracles::run(&ep, &env)
            };
            agg.add(&prop, &out);
            if samples_sent < 2 && start == 0 {
                samples_sent += 1;
                let mut o = stdout.lock();
                let _ = writeln!(o, "{}", json!({"t":"sample", "sample": sample_of(&ep)}));
            }
            fam_total += 1;
            if let Some(v) = &out.violation {
                fam_viol.push((j, v.clone(), ep.clone()));
            }
            // families that depend on a base run (C16) derive further episodes here
            for d in profiles::derive(&prop, tier, &ep, &out) {
                queue.push_back(d);
            }
            j += 1;
        }
        // C07 is about configurations agreeing with each other: a violation that occurs with the
        // same signature under EVERY configuration of the family is not a difference between
        // configurations (it belongs to the property whose oracle raised it) -> inconclusive here
        if prop == "C07" && fam_total >= 2 && fam_viol.len() as u64 == fam_total && fam_viol.iter().all(|x| x.1.signature == fam_viol[0].1.signature) && fam_viol[0].1.class != "reopen" {
            agg.violations = agg.violations.saturating_sub(fam_total);
            agg.inconclusive += fam_total;
            if agg.inconclusive_samples.len() < 3 {
                agg.inconclusive_samples.push(format!("same violation under every configuration: {}", fam_viol[0].1.signature));
            }
            fam_viol.clear();
        }
        for (sub, v, ep) in fam_viol.drain(..) {
            viol_sent += 1;
            if viol_sent > 12 {
                // enough explicit episodes from this worker; further ones are only counted
                continue;
            }
            let mut o = stdout.lock();
            let _ = writeln!(o, "{}", json!({"t":"v", "index": i, "sub": sub, "violation": v, "episode": ep}));
            let _ = o.flush();
        }
        agg.evaluations += 1;
        status.set(3, status.get(3) + 1);
        if last_report.elapsed().as_millis() > 500 {
            let mut o = stdout.lock();
            let _ = writeln!(o, "{}", agg.to_json());
            let _ = o.flush();
            last_report = std::time::Instant::now();
        }
        i += stride;
    }
    arm_cpu_timer(0);
    status.set(0, 0);
    {
        let mut o = stdout.lock();
        let _ = writeln!(o, "{}", agg.to_json());
        let _ = writeln!(o, "{}", json!({"t":"done"}));
        let _ = o.flush();
    }
    let _ = std::fs::remove_dir_all(&root);
}

/// `abysim exec <episode.json> <cpu_budget>`: run one explicit episode, print the outcome
pub fn exec_main(args: &[String]) {
    let text = std::fs::read_to_string(&args[0]).expect("read episode file");
    let ep: Episode = match serde_json::from_str::<ReplayFile>(&text) {
        Ok(r) => r.episode,
        Err(_) => serde_json::from_str(&text).expect("parse episode"),
    };
    let cpu: u64 = args.get(1).map(|s| s.parse().unwrap()).unwrap_or(60);
    let root = scratch_root("x");
    kernel::install(&root, kernel::Mode::Sim);
    if std::env::var("ABYSIM_KLOG").is_ok() {
        kernel::with(|k| k.log = Some(Vec::new()));
    }
    runner::install_panic_hook();
    let env = Env { root: root.clone(), verbose: true, allow_xproc: true, exe: std::env::current_exe().unwrap().to_string_lossy().to_string() };
    // the scratch directory must disappear even if the run kills the process: remember it
    println!("{}", json!({"t":"root", "root": root}));
    let _ = std::io::stdout().flush();
    arm_cpu_timer(cpu);
    let out = oracles::run(&ep, &env);
    arm_cpu_timer(0);
    println!(
        "{}",
        json!({"t":"outcome", "violation": out.violation, "inconclusive": out.inconclusive,
               "trace_hash": out.trace_hash, "result_hash": out.result_hash,
               "api_calls": out.stats.api_calls, "probes": out.stats.probes, "faults": out.stats.faults})
    );
    if std::env::var("ABYSIM_KLOG").is_ok() {
        kernel::with(|k| {
            if let Some(l) = &k.log {
                for e in l {
                    eprintln!("{:6} {:9} {:24} off={} len={} ret={}", e.seq, kernel::KOP_NAMES[e.op as usize], k.inodes.get(e.ino as usize).map(|i| i.path.rsplit('/').next().unwrap_or("").to_string()).unwrap_or_default(), e.off, e.len, e.ret);
                }
            }
        });
    }
    let _ = std::fs::remove_dir_all(&root);
}
