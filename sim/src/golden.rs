//! Golden images (C12): written once by the pinned release through the REAL kernel,
//! committed under /verif/golden, loaded into the simulated disk by the C12 check.

use crate::decoder;
use crate::gen::{Gen, KeyDist, ValDist};
use crate::handles;
use crate::kernel::{Img, PAGE};
use crate::ops::*;
use serde::{Deserialize, Serialize};
use std::collections::BTreeMap;
use std::io::{Read, Write};

#[derive(Clone, Debug, Serialize, Deserialize)]
pub struct GoldenMeta {
    pub name: String,
    pub map: MapSpec,
    pub history: String,
    pub written_by: String,
    /// (key as given to the API, stored key bytes hex, value hex)
    pub contents: Vec<(Key, String, String)>,
    pub buckets: u64,
    pub digests: [u64; 3],
}

pub fn save_images(path: &str, imgs: &[Img; 3]) -> std::io::Result<()> {
    let mut f = std::io::BufWriter::new(std::fs::File::create(path)?);
    f.write_all(b"ABYIMG1\n")?;
    for i in imgs {
        f.write_all(&i.len.to_le_bytes())?;
        f.write_all(&(i.page_count() as u64).to_le_bytes())?;
        for (pi, pg) in i.nonzero_pages() {
            f.write_all(&pi.to_le_bytes())?;
            f.write_all(&pg[..])?;
        }
    }
    f.flush()
}

pub fn load_images(path: &str) -> std::io::Result<[Img; 3]> {
    let mut f = std::io::BufReader::new(std::fs::File::open(path)?);
    let mut magic = [0u8; 8];
    f.read_exact(&mut magic)?;
    if &magic != b"ABYIMG1\n" {
        return Err(std::io::Error::new(std::io::ErrorKind::InvalidData, "bad image magic"));
    }
    let mut out: Vec<Img> = Vec::new();
    for _ in 0..3 {
        let mut b = [0u8; 8];
        f.read_exact(&mut b)?;
        let len = u64::from_le_bytes(b);
        f.read_exact(&mut b)?;
        let np = u64::from_le_bytes(b);
        let mut img = Img::new();
        for _ in 0..np {
            f.read_exact(&mut b)?;
            let pi = u64::from_le_bytes(b);
            let mut pg = [0u8; PAGE];
            f.read_exact(&mut pg)?;
            img.write_at(pi * PAGE as u64, &pg);
        }
        img.set_len(len);
        out.push(img);
    }
    let c = out.pop().unwrap();
    let b = out.pop().unwrap();
    let a = out.pop().unwrap();
    Ok([a, b, c])
}

/// read a real file into an image (sparse files read as zeros, which the image drops)
pub fn img_from_real_file(path: &str) -> std::io::Result<Img> {
    crate::kernel::untraced(|| img_from_real_file_inner(path))
}

fn img_from_real_file_inner(path: &str) -> std::io::Result<Img> {
    let mut f = std::fs::File::open(path)?;
    let mut img = Img::new();
    let mut buf = vec![0u8; 1 << 20];
    let mut off = 0u64;
    loop {
        let n = f.read(&mut buf)?;
        if n == 0 {
            break;
        }
        img.write_at(off, &buf[..n]);
        off += n as u64;
    }
    img.set_len(off);
    Ok(img)
}

pub fn write_real_file(path: &str, img: &Img) -> std::io::Result<()> {
    use std::io::{Seek, SeekFrom};
    let mut f = std::fs::File::create(path)?;
    f.set_len(img.len)?;
    for (pi, pg) in img.nonzero_pages() {
        let off = pi * PAGE as u64;
        let n = (PAGE as u64).min(img.len.saturating_sub(off)) as usize;
        f.seek(SeekFrom::Start(off))?;
        f.write_all(&pg[..n])?;
    }
    f.flush()
}

struct Hist {
    name: &'static str,
    buckets: Buckets,
    nkeys: usize,
    puts: usize,
    dels: usize,
    kd: KeyDist,
    vd: ValDist,
    large: bool,
    desc: &'static str,
}

/// `abysim golden-gen <outdir>` — must be run against the pinned tree, real kernel
pub fn golden_gen(outdir: &str) -> i32 {
    assert!(!crate::kernel::installed(), "golden images are written through the real kernel");
    std::fs::create_dir_all(outdir).unwrap();
    let hists = [
        Hist { name: "basic", buckets: Buckets::Cap(4), nkeys: 24, puts: 40, dels: 8, kd: KeyDist::Short, vd: ValDist::Tiny, large: false, desc: "8 buckets; inserts, overwrites within the slot class, deletes" },
        Hist { name: "chains", buckets: Buckets::Size(8), nkeys: 60, puts: 140, dels: 30, kd: KeyDist::Mixed, vd: ValDist::Boundary, large: false, desc: "8 buckets, chains >= 3, slot-class boundary lengths, free lists non-empty in several classes" },
        Hist { name: "large", buckets: Buckets::Size(128), nkeys: 40, puts: 70, dels: 12, kd: KeyDist::Short, vd: ValDist::Boundary, large: true, desc: "128 buckets; values of 1.5/3/5 KiB, the 3 KiB one deleted (large free list non-empty)" },
        Hist { name: "wide", buckets: Buckets::Size(4096), nkeys: 300, puts: 420, dels: 60, kd: KeyDist::Short, vd: ValDist::Tiny, large: false, desc: "4096 buckets, 300 keys" },
        Hist { name: "two", buckets: Buckets::Size(2), nkeys: 10, puts: 16, dels: 3, kd: KeyDist::Short, vd: ValDist::Tiny, large: false, desc: "2 buckets (BucketsSize(2)), written with put/delete only" },
    ];
    let tmp = format!("{}/abysim.golden.{}", std::env::var("ABYSIM_TMP").unwrap_or("/tmp".into()), std::process::id());
    let mut count = 0;
    let mut todo: Vec<(KType, usize)> = Vec::new();
    for kt in ALL_KTYPES {
        for h in 0..hists.len() {
            todo.push((kt, h));
        }
    }
    for (kt, hi) in todo.iter().copied().chain(std::iter::once((KType::Str, usize::MAX))) {
        let default_table = hi == usize::MAX;
        let h = if default_table {
            Hist { name: "default", buckets: Buckets::Default, nkeys: 20, puts: 30, dels: 5, kd: KeyDist::Short, vd: ValDist::Tiny, large: false, desc: "default table (16 Mi buckets), 20 keys" }
        } else {
            let x = &hists[hi];
            Hist { name: x.name, buckets: x.buckets.clone(), nkeys: x.nkeys, puts: x.puts, dels: x.dels, kd: x.kd, vd: x.vd, large: x.large, desc: x.desc }
        };
        let gname = format!("{}-{}", kt.name(), h.name);
        let dir = format!("{tmp}/{gname}");
        let _ = std::fs::remove_dir_all(&dir);
        std::fs::create_dir_all(&dir).unwrap();
        let spec = MapSpec { name: "g".into(), kt, params: Params { buckets: h.buckets.clone(), htx: Buf::PerMille(1000), key: Buf::PerMille(1000), val: Buf::Auto }, dir: 0 };
        let mut g = Gen::new(crate::rng::mix(&[0x601d, crate::rng::str_id(&gname)]), false);
        let keys = g.alphabet(kt, h.nkeys, h.kd, None);
        let mut model: BTreeMap<Vec<u8>, (Key, Vec<u8>)> = BTreeMap::new();
        {
            let db = abyssiniandb::open_file(&dir).unwrap();
            let mut m = handles::open_map(&db, &spec.name, kt, &spec.params).unwrap();
            let mut dels = 0;
            for i in 0..h.puts {
                let k = keys[g.rng.below(keys.len() as u64) as usize].clone();
                let stored = k.stored(kt);
                // overwrites stay within the slot class of the first value (no relocation)
                let v = match model.get(&stored) {
                    Some((_, old)) => {
                        let mut nv = crate::rng::payload(g.next_tag(), old.len());
                        if !nv.is_empty() {
                            nv[0] ^= 0x55;
                        }
                        nv
                    }
                    None => g.value(h.vd).bytes(),
                };
                m.put(&k, &v, KeyMode::Ref).unwrap();
                model.insert(stored, (k, v));
                if dels < h.dels && i % 4 == 3 {
                    let k = keys[g.rng.below(keys.len() as u64) as usize].clone();
                    let got = m.delete(&k, KeyMode::Ref).unwrap();
                    let want = model.remove(&k.stored(kt)).map(|x| x.1);
                    assert_eq!(got, want);
                    dels += 1;
                }
            }
            if h.large {
                let ks = g.alphabet(kt, 3, KeyDist::Short, None);
                let sizes = [1500usize, 3000, 5000];
                let mut fresh = Vec::new();
                for k in ks {
                    if !model.contains_key(&k.stored(kt)) {
                        fresh.push(k);
                    }
                }
                for (k, n) in fresh.iter().zip(sizes.iter()) {
                    let v = crate::rng::payload(g.next_tag(), *n);
                    m.put(k, &v, KeyMode::Ref).unwrap();
                    model.insert(k.stored(kt), (k.clone(), v));
                }
                if fresh.len() >= 2 {
                    m.delete(&fresh[1], KeyMode::Ref).unwrap();
                    model.remove(&fresh[1].stored(kt));
                }
            }
            assert_eq!(m.len().unwrap(), model.len() as u64);
        }
        let imgs = [
            img_from_real_file(&format!("{dir}/g.htx")).unwrap(),
            img_from_real_file(&format!("{dir}/g.key")).unwrap(),
            img_from_real_file(&format!("{dir}/g.val")).unwrap(),
        ];
        let d = match decoder::decode(&imgs[0], &imgs[1], &imgs[2]) {
            Ok(d) => d,
            Err(b) => {
                eprintln!("golden {gname}: decoder rejects the image: {} {}", b.class, b.detail);
                return 2;
            }
        };
        let same = d.map.len() == model.len() && d.map.iter().zip(model.iter()).all(|((k1, v1), (k2, (_, v2)))| k1 == k2 && v1 == v2);
        if !same || d.sig2 != kt.signature() {
            eprintln!("golden {gname}: decoded contents differ from the model");
            return 2;
        }
        let meta = GoldenMeta {
            name: gname.clone(),
            map: spec,
            history: h.desc.to_string(),
            written_by: "abyssiniandb 0.1.4 pinned commit 4b82afd, real kernel".into(),
            contents: model.iter().map(|(s, (k, v))| (k.clone(), hexser::to_hex(s), hexser::to_hex(v))).collect(),
            buckets: d.buckets,
            digests: [imgs[0].digest(), imgs[1].digest(), imgs[2].digest()],
        };
        save_images(&format!("{outdir}/{gname}.img"), &imgs).unwrap();
        std::fs::write(format!("{outdir}/{gname}.json"), serde_json::to_string(&meta).unwrap()).unwrap();
        println!("golden {gname}: {} entries, buckets {}, max chain {}, free key {:?} free val {:?}, files {}/{}/{} bytes", model.len(), d.buckets, d.max_chain,
            d.key_free.iter().map(|l| l.len()).collect::<Vec<_>>(), d.val_free.iter().map(|l| l.len()).collect::<Vec<_>>(), imgs[0].len, imgs[1].len, imgs[2].len);
        count += 1;
        let _ = std::fs::remove_dir_all(&dir);
    }
    let _ = std::fs::remove_dir_all(&tmp);
    println!("{count} golden images written to {outdir}");
    0
}

pub fn list_goldens() -> Vec<String> {
    let dir = format!("{}/golden", crate::coord::verif_dir());
    let mut v: Vec<String> = std::fs::read_dir(&dir)
        .map(|rd| rd.filter_map(|e| e.ok()).filter_map(|e| e.file_name().to_str().and_then(|n| n.strip_suffix(".json").map(|s| s.to_string()))).collect())
        .unwrap_or_default();
    v.sort();
    v
}

pub fn load_golden(name: &str) -> Option<(GoldenMeta, [Img; 3])> {
    let dir = format!("{}/golden", crate::coord::verif_dir());
    let meta: GoldenMeta = serde_json::from_str(&std::fs::read_to_string(format!("{dir}/{name}.json")).ok()?).ok()?;
    let imgs = load_images(&format!("{dir}/{name}.img")).ok()?;
    Some((meta, imgs))
}
