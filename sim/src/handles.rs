//! Type-erased access to the real crate's five map types.  Everything here calls the
//! crate's public API only.

use crate::ops::{Buckets, Buf, Flavour, KType, Key, KeyMode, Params};
use abyssiniandb::filedb::{
    CheckFileDbMap, FileBufSizeParam, FileDb, FileDbMap, FileDbParams, HashBucketsParam,
};
use abyssiniandb::{DbBytes, DbI64, DbMap, DbString, DbU64, DbVu64, DbXxx, DbXxxBase, DbXxxObjectSafe};
use std::io;

pub fn to_params(p: &Params) -> FileDbParams {
    let b = |x: &Buf| match x {
        Buf::Auto => FileBufSizeParam::Auto,
        Buf::PerMille(p) => FileBufSizeParam::PerMille(*p),
        Buf::Size(s) => FileBufSizeParam::Size(*s),
    };
    FileDbParams {
        val_buf_size: b(&p.val),
        key_buf_size: b(&p.key),
        idx_buf_size: FileBufSizeParam::PerMille(1000),
        htx_buf_size: b(&p.htx),
        buckets_size: match p.buckets {
            Buckets::Size(x) => HashBucketsParam::BucketsSize(x),
            Buckets::Cap(x) => HashBucketsParam::Capacity(x),
            Buckets::Default => HashBucketsParam::Default,
        },
    }
}

#[derive(Clone, Debug, Default, PartialEq)]
pub struct Stats {
    pub free_key: Vec<(u32, u64)>,
    pub free_val: Vec<(u32, u64)>,
    pub key_piece_sizes: Vec<(u64, u64)>,
    pub val_piece_sizes: Vec<(u64, u64)>,
    pub key_lengths: Vec<(u64, u64)>,
    pub val_lengths: Vec<(u64, u64)>,
    pub keys_count: Vec<(u64, u64)>,
    pub filling: (u64, u32),
}

/// parse the Display form "[(a, b), (c, d)]"
pub fn parse_pairs(s: &str) -> Option<Vec<(u64, u64)>> {
    let t = s.trim();
    let t = t.strip_prefix('[')?.strip_suffix(']')?;
    let mut out = Vec::new();
    let mut rest = t.trim();
    while !rest.is_empty() {
        let r = rest.strip_prefix('(')?;
        let end = r.find(')')?;
        let inner = &r[..end];
        let mut it = inner.split(',');
        let a: u64 = it.next()?.trim().parse().ok()?;
        let b: u64 = it.next()?.trim().parse().ok()?;
        out.push((a, b));
        rest = r[end + 1..].trim_start();
        rest = rest.strip_prefix(',').unwrap_or(rest).trim_start();
    }
    Some(out)
}

pub struct ItemOut {
    pub key: Option<Vec<u8>>,
    /// for integer key types: the integer the returned key converts back to
    pub key_back: Option<Key>,
    pub val: Option<Vec<u8>>,
}

pub type DynIter = Box<dyn Iterator<Item = ItemOut>>;

pub trait DynMap {
    fn ktype(&self) -> KType;
    fn put(&mut self, k: &Key, v: &[u8], mode: KeyMode) -> io::Result<()>;
    fn put_string(&mut self, k: &Key, v: &str) -> io::Result<()>;
    fn get(&mut self, k: &Key, mode: KeyMode) -> io::Result<Option<Vec<u8>>>;
    fn get_string(&mut self, k: &Key) -> io::Result<Option<String>>;
    fn delete(&mut self, k: &Key, mode: KeyMode) -> io::Result<Option<Vec<u8>>>;
    fn delete_string(&mut self, k: &Key) -> io::Result<Option<String>>;
    fn includes(&mut self, k: &Key, mode: KeyMode) -> io::Result<bool>;
    fn bulk_get(&mut self, ks: &[Key]) -> io::Result<Vec<Option<Vec<u8>>>>;
    fn bulk_get_string(&mut self, ks: &[Key]) -> io::Result<Vec<Option<String>>>;
    fn bulk_put(&mut self, kvs: &[(Key, Vec<u8>)]) -> io::Result<()>;
    fn bulk_put_string(&mut self, kvs: &[(Key, String)]) -> io::Result<()>;
    fn bulk_delete(&mut self, ks: &[Key]) -> io::Result<Vec<Option<Vec<u8>>>>;
    fn bulk_delete_string(&mut self, ks: &[Key]) -> io::Result<Vec<Option<String>>>;
    fn put_from_iter(&mut self, kvs: &[(Key, Vec<u8>)]) -> io::Result<()>;
    fn len(&self) -> io::Result<u64>;
    fn is_empty(&self) -> io::Result<bool>;
    fn read_fill_buffer(&mut self) -> io::Result<()>;
    fn flush(&mut self) -> io::Result<()>;
    fn sync_all(&mut self) -> io::Result<()>;
    fn sync_data(&mut self) -> io::Result<()>;
    fn is_dirty(&self) -> bool;
    fn iter(&mut self, fl: Flavour) -> DynIter;
    fn stats(&self) -> io::Result<Stats>;
    fn clone_handle(&self) -> Box<dyn DynMap>;
    /// integer -> key -> integer, by value and by reference; (by_value, by_ref, bytes_equal)
    fn roundtrip(&self, k: &Key) -> Option<(Key, Key, bool)>;
}

fn collect_stats<M: CheckFileDbMap>(m: &M) -> io::Result<Stats> {
    let bad = |what: &str, s: String| io::Error::new(io::ErrorKind::Other, format!("unparsable {what}: {s}"));
    let kps = m.key_piece_size_stats()?.to_string();
    let vps = m.value_piece_size_stats()?.to_string();
    let kl = m.key_length_stats()?.to_string();
    let vl = m.value_length_stats()?.to_string();
    let kc = m.keys_count_stats()?.to_string();
    Ok(Stats {
        free_key: m.count_of_free_key_piece()?,
        free_val: m.count_of_free_value_piece()?,
        key_piece_sizes: parse_pairs(&kps).ok_or_else(|| bad("key_piece_size_stats", kps.clone()))?,
        val_piece_sizes: parse_pairs(&vps).ok_or_else(|| bad("value_piece_size_stats", vps.clone()))?,
        key_lengths: parse_pairs(&kl).ok_or_else(|| bad("key_length_stats", kl.clone()))?,
        val_lengths: parse_pairs(&vl).ok_or_else(|| bad("value_length_stats", vl.clone()))?,
        keys_count: parse_pairs(&kc).ok_or_else(|| bad("keys_count_stats", kc.clone()))?,
        filling: m.htx_filling_rate_per_mill()?,
    })
}

fn as_str(b: &[u8]) -> Option<&str> {
    std::str::from_utf8(b).ok()
}

// ---------------- byte-string keyed maps ----------------

macro_rules! bytes_map {
    ($name:ident, $kt:ty, $ktype:expr) => {
        pub struct $name(pub FileDbMap<$kt>);
        impl $name {
            fn kb(k: &Key) -> Vec<u8> {
                k.stored($ktype)
            }
        }
        impl DynMap for $name {
            fn ktype(&self) -> KType {
                $ktype
            }
            fn put(&mut self, k: &Key, v: &[u8], mode: KeyMode) -> io::Result<()> {
                let kb = Self::kb(k);
                match mode {
                    KeyMode::Ref => self.0.put::<[u8]>(kb.as_slice(), v),
                    KeyMode::Val => self.0.put_kt(&<$kt>::from(kb), v),
                    KeyMode::Str => match as_str(&kb) {
                        Some(s) => self.0.put::<str>(s, v),
                        None => self.0.put::<[u8]>(kb.as_slice(), v),
                    },
                }
            }
            fn put_string(&mut self, k: &Key, v: &str) -> io::Result<()> {
                let kb = Self::kb(k);
                self.0.put_string::<[u8]>(kb.as_slice(), v)
            }
            fn get(&mut self, k: &Key, mode: KeyMode) -> io::Result<Option<Vec<u8>>> {
                let kb = Self::kb(k);
                match mode {
                    KeyMode::Ref => self.0.get::<[u8]>(kb.as_slice()),
                    KeyMode::Val => self.0.get_kt(&<$kt>::from(kb)),
                    KeyMode::Str => match as_str(&kb) {
                        Some(s) => self.0.get::<str>(s),
                        None => self.0.get::<[u8]>(kb.as_slice()),
                    },
                }
            }
            fn get_string(&mut self, k: &Key) -> io::Result<Option<String>> {
                let kb = Self::kb(k);
                self.0.get_string::<[u8]>(kb.as_slice())
            }
            fn delete(&mut self, k: &Key, mode: KeyMode) -> io::Result<Option<Vec<u8>>> {
                let kb = Self::kb(k);
                match mode {
                    KeyMode::Ref => self.0.delete::<[u8]>(kb.as_slice()),
                    KeyMode::Val => self.0.del_kt(&<$kt>::from(kb)),
                    KeyMode::Str => match as_str(&kb) {
                        Some(s) => self.0.delete::<str>(s),
                        None => self.0.delete::<[u8]>(kb.as_slice()),
                    },
                }
            }
            fn delete_string(&mut self, k: &Key) -> io::Result<Option<String>> {
                let kb = Self::kb(k);
                self.0.delete_string::<[u8]>(kb.as_slice())
            }
            fn includes(&mut self, k: &Key, mode: KeyMode) -> io::Result<bool> {
                let kb = Self::kb(k);
                match mode {
                    KeyMode::Ref => self.0.includes_key::<[u8]>(kb.as_slice()),
                    KeyMode::Val => self.0.includes_key_kt(&<$kt>::from(kb)),
                    KeyMode::Str => match as_str(&kb) {
                        Some(s) => self.0.includes_key::<str>(s),
                        None => self.0.includes_key::<[u8]>(kb.as_slice()),
                    },
                }
            }
            fn bulk_get(&mut self, ks: &[Key]) -> io::Result<Vec<Option<Vec<u8>>>> {
                let kbs: Vec<Vec<u8>> = ks.iter().map(Self::kb).collect();
                let refs: Vec<&[u8]> = kbs.iter().map(|v| v.as_slice()).collect();
                self.0.bulk_get::<[u8]>(&refs)
            }
            fn bulk_get_string(&mut self, ks: &[Key]) -> io::Result<Vec<Option<String>>> {
                let kbs: Vec<Vec<u8>> = ks.iter().map(Self::kb).collect();
                let refs: Vec<&[u8]> = kbs.iter().map(|v| v.as_slice()).collect();
                self.0.bulk_get_string::<[u8]>(&refs)
            }
            fn bulk_put(&mut self, kvs: &[(Key, Vec<u8>)]) -> io::Result<()> {
                let kbs: Vec<Vec<u8>> = kvs.iter().map(|(k, _)| Self::kb(k)).collect();
                let refs: Vec<(&[u8], &[u8])> =
                    kbs.iter().zip(kvs.iter()).map(|(k, (_, v))| (k.as_slice(), v.as_slice())).collect();
                self.0.bulk_put::<[u8]>(&refs)
            }
            fn bulk_put_string(&mut self, kvs: &[(Key, String)]) -> io::Result<()> {
                let kbs: Vec<Vec<u8>> = kvs.iter().map(|(k, _)| Self::kb(k)).collect();
                let refs: Vec<(&[u8], String)> =
                    kbs.iter().zip(kvs.iter()).map(|(k, (_, v))| (k.as_slice(), v.clone())).collect();
                self.0.bulk_put_string::<[u8]>(&refs)
            }
            fn bulk_delete(&mut self, ks: &[Key]) -> io::Result<Vec<Option<Vec<u8>>>> {
                let kbs: Vec<Vec<u8>> = ks.iter().map(Self::kb).collect();
                let refs: Vec<&[u8]> = kbs.iter().map(|v| v.as_slice()).collect();
                self.0.bulk_delete::<[u8]>(&refs)
            }
            fn bulk_delete_string(&mut self, ks: &[Key]) -> io::Result<Vec<Option<String>>> {
                let kbs: Vec<Vec<u8>> = ks.iter().map(Self::kb).collect();
                let refs: Vec<&[u8]> = kbs.iter().map(|v| v.as_slice()).collect();
                self.0.bulk_delete_string::<[u8]>(&refs)
            }
            fn put_from_iter(&mut self, kvs: &[(Key, Vec<u8>)]) -> io::Result<()> {
                let it = kvs.iter().map(|(k, v)| (<$kt>::from(Self::kb(k)), v.clone()));
                self.0.put_from_iter(it)
            }
            fn len(&self) -> io::Result<u64> {
                self.0.len()
            }
            fn is_empty(&self) -> io::Result<bool> {
                self.0.is_empty()
            }
            fn read_fill_buffer(&mut self) -> io::Result<()> {
                self.0.read_fill_buffer()
            }
            fn flush(&mut self) -> io::Result<()> {
                self.0.flush()
            }
            fn sync_all(&mut self) -> io::Result<()> {
                self.0.sync_all()
            }
            fn sync_data(&mut self) -> io::Result<()> {
                self.0.sync_data()
            }
            fn is_dirty(&self) -> bool {
                self.0.is_dirty()
            }
            fn iter(&mut self, fl: Flavour) -> DynIter {
                use abyssiniandb::DbMapKeyType;
                let kv = |(k, v): ($kt, Vec<u8>)| ItemOut {
                    key: Some(k.as_bytes().to_vec()),
                    key_back: None,
                    val: Some(v),
                };
                match fl {
                    Flavour::Iter => Box::new(self.0.iter().map(kv)),
                    Flavour::IterMut => Box::new(self.0.iter_mut().map(kv)),
                    Flavour::Keys => Box::new(self.0.keys().map(|k| ItemOut {
                        key: Some(k.as_bytes().to_vec()),
                        key_back: None,
                        val: None,
                    })),
                    Flavour::Values => Box::new(self.0.values().map(|v| ItemOut {
                        key: None,
                        key_back: None,
                        val: Some(v),
                    })),
                    Flavour::IntoIter => Box::new(self.0.clone().into_iter().map(kv)),
                    Flavour::RefInto => Box::new((&self.0).into_iter().map(kv)),
                    Flavour::RefMutInto => Box::new((&mut self.0).into_iter().map(kv)),
                }
            }
            fn stats(&self) -> io::Result<Stats> {
                collect_stats(&self.0)
            }
            fn clone_handle(&self) -> Box<dyn DynMap> {
                Box::new($name(self.0.clone()))
            }
            fn roundtrip(&self, _k: &Key) -> Option<(Key, Key, bool)> {
                None
            }
        }
    };
}

bytes_map!(StrMap, DbString, KType::Str);
bytes_map!(BytesMap, DbBytes, KType::Bytes);

// ---------------- integer keyed maps ----------------

macro_rules! int_map {
    ($name:ident, $kt:ty, $ktype:expr, $int:ty, $kv:ident) => {
        pub struct $name(pub FileDbMap<$kt>);
        impl $name {
            fn ki(k: &Key) -> $int {
                match k {
                    Key::U(u) => *u as $int,
                    Key::I(i) => *i as $int,
                    _ => panic!("harness: integer map given a byte key"),
                }
            }
        }
        impl DynMap for $name {
            fn ktype(&self) -> KType {
                $ktype
            }
            fn put(&mut self, k: &Key, v: &[u8], mode: KeyMode) -> io::Result<()> {
                let i = Self::ki(k);
                match mode {
                    KeyMode::Val => self.0.put_kt(&<$kt>::from(i), v),
                    _ => self.0.put::<$int>(&i, v),
                }
            }
            fn put_string(&mut self, k: &Key, v: &str) -> io::Result<()> {
                let i = Self::ki(k);
                self.0.put_string::<$int>(&i, v)
            }
            fn get(&mut self, k: &Key, mode: KeyMode) -> io::Result<Option<Vec<u8>>> {
                let i = Self::ki(k);
                match mode {
                    KeyMode::Val => self.0.get_kt(&<$kt>::from(i)),
                    _ => self.0.get::<$int>(&i),
                }
            }
            fn get_string(&mut self, k: &Key) -> io::Result<Option<String>> {
                let i = Self::ki(k);
                self.0.get_string::<$int>(&i)
            }
            fn delete(&mut self, k: &Key, mode: KeyMode) -> io::Result<Option<Vec<u8>>> {
                let i = Self::ki(k);
                match mode {
                    KeyMode::Val => self.0.del_kt(&<$kt>::from(i)),
                    _ => self.0.delete::<$int>(&i),
                }
            }
            fn delete_string(&mut self, k: &Key) -> io::Result<Option<String>> {
                let i = Self::ki(k);
                self.0.delete_string::<$int>(&i)
            }
            fn includes(&mut self, k: &Key, mode: KeyMode) -> io::Result<bool> {
                let i = Self::ki(k);
                match mode {
                    KeyMode::Val => self.0.includes_key_kt(&<$kt>::from(i)),
                    _ => self.0.includes_key::<$int>(&i),
                }
            }
            fn bulk_get(&mut self, ks: &[Key]) -> io::Result<Vec<Option<Vec<u8>>>> {
                let is: Vec<$int> = ks.iter().map(Self::ki).collect();
                let refs: Vec<&$int> = is.iter().collect();
                self.0.bulk_get::<$int>(&refs)
            }
            fn bulk_get_string(&mut self, ks: &[Key]) -> io::Result<Vec<Option<String>>> {
                let is: Vec<$int> = ks.iter().map(Self::ki).collect();
                let refs: Vec<&$int> = is.iter().collect();
                self.0.bulk_get_string::<$int>(&refs)
            }
            fn bulk_put(&mut self, kvs: &[(Key, Vec<u8>)]) -> io::Result<()> {
                let is: Vec<$int> = kvs.iter().map(|(k, _)| Self::ki(k)).collect();
                let refs: Vec<(&$int, &[u8])> =
                    is.iter().zip(kvs.iter()).map(|(k, (_, v))| (k, v.as_slice())).collect();
                self.0.bulk_put::<$int>(&refs)
            }
            fn bulk_put_string(&mut self, kvs: &[(Key, String)]) -> io::Result<()> {
                let is: Vec<$int> = kvs.iter().map(|(k, _)| Self::ki(k)).collect();
                let refs: Vec<(&$int, String)> =
                    is.iter().zip(kvs.iter()).map(|(k, (_, v))| (k, v.clone())).collect();
                self.0.bulk_put_string::<$int>(&refs)
            }
            fn bulk_delete(&mut self, ks: &[Key]) -> io::Result<Vec<Option<Vec<u8>>>> {
                let is: Vec<$int> = ks.iter().map(Self::ki).collect();
                let refs: Vec<&$int> = is.iter().collect();
                self.0.bulk_delete::<$int>(&refs)
            }
            fn bulk_delete_string(&mut self, ks: &[Key]) -> io::Result<Vec<Option<String>>> {
                let is: Vec<$int> = ks.iter().map(Self::ki).collect();
                let refs: Vec<&$int> = is.iter().collect();
                self.0.bulk_delete_string::<$int>(&refs)
            }
            fn put_from_iter(&mut self, kvs: &[(Key, Vec<u8>)]) -> io::Result<()> {
                let it = kvs.iter().map(|(k, v)| (<$kt>::from(Self::ki(k)), v.clone()));
                self.0.put_from_iter(it)
            }
            fn len(&self) -> io::Result<u64> {
                self.0.len()
            }
            fn is_empty(&self) -> io::Result<bool> {
                self.0.is_empty()
            }
            fn read_fill_buffer(&mut self) -> io::Result<()> {
                self.0.read_fill_buffer()
            }
            fn flush(&mut self) -> io::Result<()> {
                self.0.flush()
            }
            fn sync_all(&mut self) -> io::Result<()> {
                self.0.sync_all()
            }
            fn sync_data(&mut self) -> io::Result<()> {
                self.0.sync_data()
            }
            fn is_dirty(&self) -> bool {
                self.0.is_dirty()
            }
            fn iter(&mut self, fl: Flavour) -> DynIter {
                use abyssiniandb::DbMapKeyType;
                let kv = |(k, v): ($kt, Vec<u8>)| ItemOut {
                    key: Some(k.as_bytes().to_vec()),
                    key_back: Some(Key::$kv(<$int>::from(&k))),
                    val: Some(v),
                };
                match fl {
                    Flavour::Iter => Box::new(self.0.iter().map(kv)),
                    Flavour::IterMut => Box::new(self.0.iter_mut().map(kv)),
                    Flavour::Keys => Box::new(self.0.keys().map(|k| ItemOut {
                        key: Some(k.as_bytes().to_vec()),
                        key_back: Some(Key::$kv(<$int>::from(&k))),
                        val: None,
                    })),
                    Flavour::Values => Box::new(self.0.values().map(|v| ItemOut {
                        key: None,
                        key_back: None,
                        val: Some(v),
                    })),
                    Flavour::IntoIter => Box::new(self.0.clone().into_iter().map(kv)),
                    Flavour::RefInto => Box::new((&self.0).into_iter().map(kv)),
                    Flavour::RefMutInto => Box::new((&mut self.0).into_iter().map(kv)),
                }
            }
            fn stats(&self) -> io::Result<Stats> {
                collect_stats(&self.0)
            }
            fn clone_handle(&self) -> Box<dyn DynMap> {
                Box::new($name(self.0.clone()))
            }
            fn roundtrip(&self, k: &Key) -> Option<(Key, Key, bool)> {
                use abyssiniandb::DbMapKeyType;
                let i = Self::ki(k);
                let by_val = <$kt>::from(i);
                let by_ref = <$kt>::from(&i);
                let same = by_val.as_bytes() == by_ref.as_bytes() && by_val == by_ref;
                let back_val: $int = <$int>::from(by_val);
                let back_ref: $int = <$int>::from(&by_ref);
                Some((Key::$kv(back_val), Key::$kv(back_ref), same))
            }
        }
    };
}

int_map!(U64Map, DbU64, KType::U64, u64, U);
int_map!(I64Map, DbI64, KType::I64, i64, I);
int_map!(Vu64Map, DbVu64, KType::Vu64, u64, U);

pub fn open_map(db: &FileDb, name: &str, kt: KType, p: &Params) -> io::Result<Box<dyn DynMap>> {
    let params = to_params(p);
    Ok(match kt {
        KType::Str => Box::new(StrMap(db.db_map_string_with_params(name, params)?)),
        KType::Bytes => Box::new(BytesMap(db.db_map_bytes_with_params(name, params)?)),
        KType::U64 => Box::new(U64Map(db.db_map_u64_with_params(name, params)?)),
        KType::I64 => Box::new(I64Map(db.db_map_i64_with_params(name, params)?)),
        KType::Vu64 => Box::new(Vu64Map(db.db_map_vu64_with_params(name, params)?)),
    })
}

/// occasionally used: the parameter-less lookups (`db_map_string(name)` ...)
pub fn open_map_default(db: &FileDb, name: &str, kt: KType) -> io::Result<Box<dyn DynMap>> {
    Ok(match kt {
        KType::Str => Box::new(StrMap(db.db_map_string(name)?)),
        KType::Bytes => Box::new(BytesMap(db.db_map_bytes(name)?)),
        KType::U64 => Box::new(U64Map(db.db_map_u64(name)?)),
        KType::I64 => Box::new(I64Map(db.db_map_i64(name)?)),
        KType::Vu64 => Box::new(Vu64Map(db.db_map_vu64(name)?)),
    })
}
