#!/usr/bin/env python3
"""Write /verif/SENSITIVITY.md from /verif/seeded/*/meta.json and the log of tools/sens_all.sh
(usage: mk_sensitivity.py <sens_all log> )."""
import json, glob, os, re, sys
logf = sys.argv[1] if len(sys.argv) > 1 else "/verif/sensitivity-logs/mutants-final.log"
log = open(logf, errors="replace").read() if os.path.exists(logf) else ""
equiv = {"m07-roundup-off-by-one-large": "equivalent mutant: large slots stay multiples of 128 that hold the record; no property is affected",
         "m18-read-fill-writes": "equivalent for the listed properties: the two writes cancel out, the closed files are byte-identical (C15 holds)"}
rows = {}
for m in re.finditer(r"^(\S+) SUMMARY detected-by:(.*)$", log, re.M):
    rows[m.group(1)] = m.group(2).split() if "NONE" not in m.group(2) else []
invalid = {m.group(1): m.group(2) for m in re.finditer(r"^(\S+) (EXISTING-TESTS-FAIL|BUILD-FAILED|PATCH-FAILED)", log, re.M)}
partial = {m.group(1): m.group(2) for m in re.finditer(r"^(\S+) PARTIAL (.*)$", log, re.M)}
first_sig = {}
for m in re.finditer(r"^(\S+) (C\d+) DETECTED (.*)$", log, re.M):
    first_sig.setdefault((m.group(1), m.group(2)), m.group(3)[:110])
desc = {}
for p in sorted(glob.glob("/verif/mutants/*.patch")):
    name = os.path.basename(p)[:-6]
    plus = [l[1:].strip() for l in open(p) if l.startswith("+") and not l.startswith("+++")]
    desc[name] = (plus[0] if plus else "(lines removed)")[:90]
out = ["# Sensitivity: which check catches which change", "",
       "Every change below compiles and keeps the repository's own 55 tests green (unless marked).",
       "Each was applied to a scratch copy of /repo (never to /repo itself) and all 18 quick checks",
       "were run against it with the default seed (`tools/try_patch.sh`, `tools/import_seed.py`); for the",
       "round-3 and round-4 seeds (`*-R3`, `*-R4`, except C11-R3 and C14-R3) only the check of the property aimed at was run.",
       "A check \"detects\" a change when it prints a VIOLATION line (exit 1).", "",
       "## 1. Changes seeded by independent sub-agents", "",
       "Each sub-agent got only the text of one property and a scratch worktree; nothing from /verif.",
       "Kept under /verif/seeded/<id>/ (patch.diff, demo.rs, notes.md, meta.json) after I confirmed: existing",
       "suite passes with the patch, the agent's demonstration fails with it and passes without it.", "",
       "| seed | aimed at | what it needs to manifest (short) | detected by | own check |", "|---|---|---|---|---|"]
n_seed = n_own = 0
for f in sorted(glob.glob("/verif/seeded/*/meta.json")):
    m = json.load(open(f))
    det = [d["check"] for d in m["detected_by"]]
    own = m["breaks_property"] in det
    n_seed += 1; n_own += own
    notes = open(os.path.dirname(f) + "/notes.md").read()
    title = next((l.strip("# ").strip() for l in notes.splitlines() if l.strip()), "")[:140]
    out.append(f"| {m['id']} | {m['breaks_property']} | {title} | {' '.join(det) or '**none**'} | {'yes' if own else '**no**'} |")
out += ["", f"{n_own} of {n_seed} seeded changes are detected by the check of the property they were aimed at.", ""]
out += ["### Checks strengthened because a seeded change was missed at first", "",
        "* **C07-B** (`key_buf_size: Size(n)` split into two non-power-of-two chunks for 8194 <= n < 262144): the generator drew `Size(n)` only from {0, 4096, 131072, 262144, 300000}; it now draws from a list of boundary values plus a log-uniform size up to 2 MiB for every file, in C07 and in the common parameter generator. Detected by C07 (and C01, C02, ...) afterwards.",
        "* **C16-B** (database-level `sync_*` keeps only the result of the last map): C16 used a single map, so the failing map was always the last one; it now uses 1-4 maps of mixed key types with a database-level call as the target, and the kernel calls of database-level calls are recorded for the fault-point derivation. Detected by C16 afterwards.",
        "* **C13-B** (a `.key` file of <= 192 bytes is treated as new: truncated and re-headed before the other files are checked): all C13 maps were populated; the case list now contains every ordered type pair on a created-but-empty map, and every case leaves the map empty now and then. Detected by C13 afterwards.",
        "* **C17-R2** (value_length_stats / value_piece_size_stats return Err for a value >= 16 KiB in a slot >= 128 KiB): the C17 oracle treated an Err of a statistics call as inconclusive; it is a violation now (a diagnostic call that cannot report does not report the true structure). Detected by C17 afterwards.",
        "* **C13-R3** (round 3; `file_length < HEADER_SZ` instead of `is_zero()` as the new-file test: a non-empty file shorter than its header is re-initialised instead of refused): the C13 case list had no file shorter than its header; it now has one file or all three cut to 1..header-1 bytes with a foreign first signature byte, and correctly signed stubs opened as every other key type (580 more cases). Detected by C13 afterwards.",
        "* **C13-R4** (round 4; an existing `.htx` is truncated and re-initialised without a signature check when `.key` and `.val` are both new): no case removed files; 50 table-file-only cases added (the `.key`/`.val` files removed or emptied, the table opened as another key type or with a foreign first byte; only the table is judged). Detected by C13 afterwards.",
        "* **C02-R4** (round 4; item count written to the header only by flush/sync and by a `Drop` of the database object): needs the database handle dropped before the last map handle; `Step::DbDrop` existed but was never generated. The handle operations of every history now drop all database handles of a directory now and then while map handles stay alive. Detected by C02 afterwards (145 runs).",
        "* **C09-R4** (round 4; key record rewritten in place, room check short by the size field): needs an exactly full key record whose value link gets wider (value moved past 128 KiB) without the record moving; the key-length sweep never moved a value. It now has a relocation phase. Detected by C09 afterwards (28 runs).",
        "* **C10-R4** (round 4; offset -> decoded key cache read only by the iterators): needs a key record relocated between two traversals on one handle; C10 histories used tiny values only. Half of them now use the relocating value distributions and mixed key lengths. Detected by C10 afterwards (83 runs, four signatures).",
        "* Remarks of the sub-agents that changed the checks although nothing was missed: key records are sized from the width of the *raw* offsets (relocation thresholds at 16 KiB / 2 MiB, C08 generator and probes); values above 4096 bytes panic in debug-assertion builds (led to the `+dbg` pass of every check and to fix c008516).", "",
        "## 2. Hand-written mutants (/verif/mutants)", "",
        "`rev-*` = one of the `fix:` commits reverted (the defects of the pinned tree as mutants).", "",
        "| mutant | first changed line | detected by |", "|---|---|---|"]
for name in sorted(desc):
    if name.startswith("benign-"):
        continue
    if name in invalid:
        out.append(f"| {name} | `{desc[name]}` | not a valid mutant: {invalid[name]} |")
    elif name in rows:
        note = f" ({partial[name]})" if name in partial else ""
        if not rows[name] and name in equiv:
            note = f" ({equiv[name]})"
        out.append(f"| {name} | `{desc[name]}` | {' '.join(rows[name]) or '**none**'}{note} |")
    else:
        out.append(f"| {name} | `{desc[name]}` | (not run) |")
out += ["", "## 3. Property-preserving changes (no alarm expected)", "",
        "`benign-*` are my own patches; `P1a..P4d` (under /verif/preserving/) were written by four independent sub-agents that got the 18 property statements and were asked for legitimate internal changes that keep every property (other free-slot choice, other write / sync order, reversed iteration order, tail insertion into chains, stale bitmap flags, pre-collecting iterators, Err instead of panic on a foreign signature, ...). All 18 quick checks were run against each.", "",
        "| patch | what changes | alarms |", "|---|---|---|"]
for f in sorted(glob.glob("/verif/preserving/*/meta.json")):
    m = json.load(open(f))
    out.append(f"| {m['id']} | {m['what'][:150]} | {' '.join(m['alarms']) or 'none'} |")
for name in sorted(desc):
    if name.startswith("benign-") and name in rows:
        out.append(f"| {name} | `{desc[name]}` | {' '.join(rows[name]) or 'none'} |")
open("/verif/SENSITIVITY.md", "w").write("\n".join(out) + "\n")
print("written", n_seed, "seeds", len(rows), "mutant rows")
