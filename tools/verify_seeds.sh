#!/bin/sh
# re-run, for every seeded change, the quick check of the property it was aimed at (current harness)
VERIF="$(cd "$(dirname "$0")/.." && pwd)"
for d in "$VERIF"/seeded/*/; do
    id=$(basename "$d"); prop=${id%%-*}
    SKIP_TESTS=1 ABYSIM_NO_DBG=1 "$VERIF/tools/try_patch.sh" "$d/patch.diff" "vs-$id" "$prop" | tail -1
done
