#!/usr/bin/env python3
"""Generate /verif/mutants/<name>.patch files (property-breaking changes used for the
sensitivity table).  Each mutant = list of (file, old, new) replacements against /repo HEAD."""
import subprocess, os, sys, tempfile, shutil
M = {}
def mut(name, *edits): M[name] = edits
D='src/filedb/inner/dbxxx.rs'; H='src/filedb/inner/htx.rs'; K='src/filedb/inner/key.rs'; V='src/filedb/inner/val.rs'; P='src/filedb/inner/piece.rs'; L='src/lib.rs'
# --- natural mutants: the seven fixes reverted one by one
mut('rev-D1-dirty-never-set', (D, "        self.dirty = true;\n        if let Some((key_offset, _prev_key_offset)) = opt {\n            let new_key_offset", "        if let Some((key_offset, _prev_key_offset)) = opt {\n            let new_key_offset"),
    (D, "            self.dirty = true;\n            let key_piece = self.key_file.read_piece(key_offset)?;", "            let key_piece = self.key_file.read_piece(key_offset)?;"),
    (D, "dirty: key_is_new || val_is_new || htx_is_new,", "dirty: false,"))
mut('rev-D1b-sync-after-flush', (D, "            self.unsynced = true;\n", ""))
mut('rev-D2-bitmap-stepback', (H, "if idx > start_idx {", "if idx >= 8 * 8 {"))
mut('rev-D3-small-table-underflow', (H, "idx + 8 < buckets_size {", "idx < buckets_size - 8 {"))
mut('rev-D4-large-slot-size-val', (V, "                let free_piece_size = self.0.read_piece_size()?;\n                (free_piece_offset, free_piece_size)", "                (free_piece_offset, new_piece_size)"))
mut('rev-D4-large-slot-size-key', (K, "                let free_piece_size = self.0.read_piece_size()?;\n                (free_piece_offset, free_piece_size)", "                (free_piece_offset, new_piece_size)"))
mut('rev-D5-relink-put', (D, "                _cold();\n                self.relink_moved_key_piece(hash, key_offset, new_key_offset)?;", "                unimplemented!(\"key_offset != new_key_offset : in put_kt\");"))
mut('rev-D5-relink-del', (D, "                    self.relink_moved_key_piece(hash, _prev_key_offset, new_prev_key.offset)?;", "                    panic!(\"_prev_key_offset != new_prev_key_offset : in del_kt\");"))
mut('rev-D6-size-clamp', (V, "(val / dat_buf_chunk_size).max(2)", "val / dat_buf_chunk_size"))
# --- further hand-written mutants (DESIGN §4 list)
mut('m01-no-dirty-on-delete', (D, "            self.dirty = true;\n            let key_piece = self.key_file.read_piece(key_offset)?;", "            let key_piece = self.key_file.read_piece(key_offset)?;"))
mut('m02-flush-skips-key-file', (D, "            self.val_file.flush()?;\n            self.key_file.flush()?;\n            self.htx_file.flush()?;", "            self.val_file.flush()?;\n            self.htx_file.flush()?;"))
mut('m03-sync-data-skips-htx', (D, "            self.key_file.sync_data()?;\n            self.htx_file.sync_data()?;", "            self.key_file.sync_data()?;\n            self.htx_file.flush()?;"))
mut('m04-swallow-val-flush-error', (D, "            // save all data\n            self.val_file.flush()?;", "            // save all data\n            let _ = self.val_file.flush();"))
mut('m05-clear-dirty-before-writes', (D, "        if self.is_dirty() {\n            // save all data\n            self.val_file.flush()?;", "        if self.is_dirty() {\n            self.dirty = false;\n            // save all data\n            self.val_file.flush()?;"))
mut('m06-forget-val-delete-piece', (D, "            self.val_file.delete_piece(key_piece.value_offset)?;\n", ""))
mut('m07-roundup-off-by-one-large', (P, "PieceSize::<T>::new(((piece_size + 128) / 128) * 128)", "PieceSize::<T>::new(((piece_size + 127) / 128) * 128)"))
mut('m08-drop-bitmap-clear', (H, "                byte &= !(1 << bitmap_bit_idx);", "                byte &= !(1 << (bitmap_bit_idx & 6));"))
mut('m09-bitmap-set-wrong-bit-high-idx', (H, "                byte |= 1 << bitmap_bit_idx;", "                byte |= 1 << (if idx >= 4096 { bitmap_bit_idx & 3 } else { bitmap_bit_idx });"))
mut('m10-no-val-sig2-check', (V, "    assert!(\n        sig2 == signature2,\n        \"invalid header signature2, type signature: {sig2:?}\",\n    );", "    let _ = signature2;"))
mut('m11-hash-shift-constant', (L, "        x ^= x << 25;\n        x ^= x >> 27;\n    }\n    #[cfg(feature = \"myhasher_george1\")]", "        x ^= x << 25;\n        x ^= x >> 28;\n    }\n    #[cfg(feature = \"myhasher_george1\")]"))
mut('m12-bulk-get-index-restore', (L, "            let result_value = self.get(ik.1)?;\n            result.push((ik.0, result_value));\n        }\n        result.sort_by(|a, b| a.0.cmp(&(b.0)));", "            let result_value = self.get(ik.1)?;\n            result.push((ik.0, result_value));\n        }\n        result.sort_by(|a, b| (a.0 / 2).cmp(&(b.0 / 2)));"))
mut('m13-u64-from-ref-big-endian', ('src/filedb/dbmap/kt_dbu64.rs', "impl From<&u64> for DbU64 {\n    #[inline]\n    fn from(a: &u64) -> Self {\n        DbU64(a.to_le_bytes().to_vec())", "impl From<&u64> for DbU64 {\n    #[inline]\n    fn from(a: &u64) -> Self {\n        DbU64(if *a > u32::MAX as u64 { a.to_be_bytes().to_vec() } else { a.to_le_bytes().to_vec() })"))
mut('m14-count-down-twice-on-chain-delete', (D, "                let new_prev_key = self.key_file.write_piece(prev_key_piece)?;", "                self.htx_file.write_item_count_down()?;\n                let new_prev_key = self.key_file.write_piece(prev_key_piece)?;\n                self.htx_file.write_item_count_up()?;\n                if new_prev_key.offset.as_value() > 4096 { self.htx_file.write_item_count_down()?; }"))
mut('m15-pop-large-takes-smaller', (P, "            if new_piece_size <= piece_size {\n                if !free_prev.is_zero() {", "            if new_piece_size.as_value() <= piece_size.as_value() + 128 {\n                if !free_prev.is_zero() {"))
mut('m16-push-free-wrong-list', (P, "        self.write_free_piece_offset_on_header(old_piece_size, old_piece_offset)?;\n        Ok(())", "        let sz = if old_piece_size.as_value() == 896 { PieceSize::<T>::new(768) } else { old_piece_size };\n        self.write_free_piece_offset_on_header(sz, old_piece_offset)?;\n        Ok(())"))
mut('m17-iter-size-hint-stale', (D, "            if self.remaining_item_count > 0 {\n                self.remaining_item_count -= 1;\n            }\n            Some(self.key_offset)\n        }\n    }\n}\n\n// impl trait: Iterator\nimpl<KT: DbMapKeyType> Iterator for DbXxxIterMut<KT> {", "            if self.remaining_item_count > 0 && self.buckets_idx < 512 {\n                self.remaining_item_count -= 1;\n            }\n            Some(self.key_offset)\n        }\n    }\n}\n\n// impl trait: Iterator\nimpl<KT: DbMapKeyType> Iterator for DbXxxIterMut<KT> {"))
mut('m18-read-fill-writes', (D, "    fn read_fill_buffer(&mut self) -> Result<()> {\n        self.val_file.read_fill_buffer()?;", "    fn read_fill_buffer(&mut self) -> Result<()> {\n        self.htx_file.write_item_count_up()?;\n        self.htx_file.write_item_count_down()?;\n        self.val_file.read_fill_buffer()?;"))
mut('m19-stats-free-count-off', (P, "            while !free_next_offset.is_zero() {\n                count += 1;", "            while !free_next_offset.is_zero() {\n                count += if count < 3 { 1 } else { 0 };"))
mut('m20-params-override-buckets-on-reopen', (H, "            file_nc.buckets_size = file_nc.file.read_hash_buckets_size()?;", "            file_nc.buckets_size = match params.buckets_size {\n                HashBucketsParam::BucketsSize(x) if x == 3 => 4,\n                _ => file_nc.file.read_hash_buckets_size()?,\n            };"))

# --- property-preserving changes: every check must stay quiet on them
mut('benign-01-flush-order-reversed', (D, "            self.val_file.flush()?;\n            self.key_file.flush()?;\n            self.htx_file.flush()?;", "            self.htx_file.flush()?;\n            self.key_file.flush()?;\n            self.val_file.flush()?;"))
mut('benign-02-sync-all-uses-fdatasync-for-key', (D, "            self.val_file.sync_all()?;\n            self.key_file.sync_all()?;", "            self.val_file.sync_all()?;\n            self.key_file.sync_data()?;"))
mut('benign-03-min-8-buckets-at-creation', (H, "HashBucketsParam::BucketsSize(x) => x.next_power_of_two(),", "HashBucketsParam::BucketsSize(x) => x.next_power_of_two().max(8),"))
mut('benign-04-key-slot-sized-from-stored-width', (K, "let enc_val_off = vu64::encoded_len(self.value_offset.as_value()) as u32;", "let enc_val_off = vu64::encoded_len(self.value_offset.as_value() / 8) as u32;"),
    (K, "let enc_buck_next_off = vu64::encoded_len(self.bucket_next_offset.as_value()) as u32;", "let enc_buck_next_off = vu64::encoded_len(self.bucket_next_offset.as_value() / 8) as u32;"))
mut('benign-05-flush-always-writes', (D, "    fn flush(&mut self) -> Result<()> {\n        if self.is_dirty() {", "    fn flush(&mut self) -> Result<()> {\n        if self.is_dirty() || true {"))
mut('benign-06-read-fill-buffer-noop', (D, "        self.val_file.read_fill_buffer()?;\n        self.key_file.read_fill_buffer()?;\n        self.htx_file.read_fill_buffer()?;\n        Ok(())", "        Ok(())"))

def main():
    out='/verif/mutants'
    os.makedirs(out, exist_ok=True)
    for name, edits in M.items():
        tmp=tempfile.mkdtemp(prefix='mkmut')
        subprocess.check_call(f"git -C /repo archive HEAD src | tar -x -C {tmp}", shell=True)
        shutil.copytree(f"{tmp}/src", f"{tmp}/a/src"); shutil.copytree(f"{tmp}/src", f"{tmp}/b/src")
        for (f, old, new) in edits:
            p=f"{tmp}/b/{f}"; s=open(p).read()
            if s.count(old)!=1:
                print(f"!! {name}: pattern occurs {s.count(old)} times in {f}"); break
            open(p,'w').write(s.replace(old,new))
        else:
            r=subprocess.run(f"cd {tmp} && diff -ruN a/src b/src", shell=True, capture_output=True, text=True)
            open(f"{out}/{name}.patch",'w').write(r.stdout)
        shutil.rmtree(tmp)
    print(len(M), "mutants")
main()
