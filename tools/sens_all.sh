#!/bin/sh
# run every hand-written mutant of /verif/mutants through all quick checks (long; sensitivity only)
VERIF="$(cd "$(dirname "$0")/.." && pwd)"
( cd "$VERIF/sim" && CARGO_NET_OFFLINE=true cargo build --release --offline -q )
for p in "$VERIF"/mutants/*.patch; do
    ABYSIM_NO_DBG=1 "$VERIF/tools/try_patch.sh" "$p" "$(basename "$p" .patch)"
done
