#!/bin/sh
# run every mutant of /verif/mutants and /verif/seeded through all quick checks (long)
VERIF="$(cd "$(dirname "$0")/.." && pwd)"
for p in "$VERIF"/mutants/*.patch; do
    "$VERIF/tools/try_patch.sh" "$p" "$(basename "$p" .patch)"
done
for d in "$VERIF"/seeded/*/; do
    [ -f "$d/patch.diff" ] && "$VERIF/tools/try_patch.sh" "$d/patch.diff" "seed-$(basename "$d")"
done
rm -rf /tmp/mut/shared
