#!/bin/sh
# Sensitivity helper (not a registered check): run the repository's own tests and then the
# quick checks against a scratch copy of /repo with a patch applied; /repo and /verif are not
# touched.   tools/try_patch.sh <patch.diff> <id> [Cxx ...]   (default: all 18 checks)
# Environment: ABYSIM_EVALS / ABYSIM_WALL / VERIF_SEED are passed through; SKIP_TESTS=1 skips
# the repository test suite.
PATCH="$(readlink -f "$1")"; ID="$2"; shift 2
VERIF="$(cd "$(dirname "$0")/.." && pwd)"
[ $# -eq 0 ] && set -- C01 C02 C03 C04 C05 C06 C07 C08 C09 C10 C11 C12 C13 C14 C15 C16 C17 C18
W=/tmp/mut/$ID
rm -rf "$W"; mkdir -p "$W/vdir" /tmp/mut/shared
git -C /repo archive HEAD | tar -x -C "$W" --one-top-level=repo
find "$W/repo" -name '*.rs' -exec touch {} +
( cd "$W/repo" && patch -p1 -s < "$PATCH" ) || { echo "$ID PATCH-FAILED"; rm -rf "$W"; exit 2; }
ln -s "$VERIF/golden" "$W/vdir/golden"
cp "$VERIF/known-findings.txt" "$W/vdir/known-findings.txt"
if [ -z "$SKIP_TESTS" ]; then
    ( cd "$W/repo" && CARGO_NET_OFFLINE=true CARGO_TARGET_DIR=/tmp/mut/shared/test-target flock /tmp/mut/shared/test.lock cargo test --workspace --no-fail-fast --offline > "$W/tests.out" 2>&1 )
    if grep -q "test result: FAILED\|^error" "$W/tests.out"; then echo "$ID EXISTING-TESTS-FAIL (not a valid mutant)"; rm -rf "$W/repo"; exit 3; fi
fi
cd "$VERIF/sim"
# private target directory (warm copy of the harness build) so that parallel runs cannot mix binaries
cp -r "$VERIF/sim/target" "$W/target" 2>/dev/null
CARGO_NET_OFFLINE=true CARGO_TARGET_DIR="$W/target" cargo build --release --offline -q --config "paths=[\"$W/repo\"]" 2>"$W/build.log" || { echo "$ID BUILD-FAILED"; tail -5 "$W/build.log"; rm -rf "$W/target"; exit 2; }
cp "$W/target/release/abysim" "$W/abysim"
rm -rf "$W/target"
DET=""
for P in "$@"; do
    ABYSIM_VERIF_DIR="$W/vdir" "$W/abysim" check "$P" quick > "$W/$P.out" 2>&1
    if grep -q '^VIOLATION' "$W/$P.out"; then
        DET="$DET $P"
        echo "$ID $P DETECTED $(grep -m1 '^VIOLATION' "$W/$P.out" | sed 's/.*sig=//' | cut -c1-200)"
    fi
done
echo "$ID SUMMARY detected-by:${DET:- NONE}"
rm -rf "$W/repo" "$W/abysim"
