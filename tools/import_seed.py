#!/usr/bin/env python3
"""Confirm a seeded change produced by an independent sub-agent and record it under
/verif/seeded/<id>/ : usage  import_seed.py <Cxx> <A|B> [checks...]
Steps: scratch copy of /repo HEAD; demo passes without the patch; with the patch the existing
suite still passes and the demo fails; then the quick checks are run against the patched copy."""
import json, os, subprocess, sys, shutil, re
prop, var = sys.argv[1], sys.argv[2]
args = sys.argv[3:]
src = f"/tmp/seed/{prop}/SEED/{var}"
if "--src" in args:
    i = args.index("--src"); src = args[i + 1]; del args[i:i + 2]
checks = args or ["C%02d" % i for i in range(1, 19)]
sid = f"{prop}-{var}"
W = f"/tmp/mut/imp-{sid}"
shutil.rmtree(W, ignore_errors=True); os.makedirs(W); os.makedirs('/tmp/mut/shared', exist_ok=True)
# a private target directory per import: a shared one is unsound when imports run in parallel
# (cargo's freshness test is mtime based and may reuse another copy's test binary)
env = dict(os.environ, CARGO_NET_OFFLINE="true", CARGO_TARGET_DIR=f"{W}/test-target")
def sh(cmd, **kw):
    return subprocess.run(cmd, shell=True, capture_output=True, text=True, errors="replace", env=env, **kw)
sh(f"git -C /repo archive HEAD | tar -x -C {W} --one-top-level=repo")
# archived files carry the commit's mtime: make them newer than anything a previous scratch copy
# at the same path left in the shared target directory (cargo freshness is mtime based)
sh(f"find {W}/repo -name '*.rs' -exec touch {{}} +")
shutil.copy(f"{src}/demo.rs", f"{W}/repo/tests/seed_demo.rs")
r0 = sh("cargo test --offline --test seed_demo 2>&1", cwd=f"{W}/repo")
demo_ok_without = "test result: ok" in r0.stdout and "FAILED" not in r0.stdout
p = sh(f"patch -p1 -s < {src}/patch.diff", cwd=f"{W}/repo")
if p.returncode != 0:
    print(sid, "PATCH DOES NOT APPLY", p.stdout, p.stderr); sys.exit(2)
r1 = sh("cargo test --offline --test seed_demo 2>&1", cwd=f"{W}/repo")
demo_fails_with = "FAILED" in r1.stdout or "panicked" in r1.stdout or r1.returncode != 0
os.remove(f"{W}/repo/tests/seed_demo.rs")
r2 = sh("cargo test --workspace --no-fail-fast --offline 2>&1", cwd=f"{W}/repo")
passed = sum(int(x) for x in re.findall(r"test result: ok\. (\d+) passed", r2.stdout))
suite_ok = "FAILED" not in r2.stdout and "error" not in r2.stdout.split("Running")[0] and passed == 55
print(f"{sid}: demo passes without patch={demo_ok_without}; demo fails with patch={demo_fails_with}; existing suite with patch: {passed} passed ok={suite_ok}")
shutil.rmtree(f"{W}/repo")
shutil.rmtree(f"{W}/test-target", ignore_errors=True)
det = sh(f"SKIP_TESTS=1 /verif/tools/try_patch.sh {src}/patch.diff seed-{sid} {' '.join(checks)}")
print(det.stdout.strip()[-1500:])
detected = re.findall(rf"seed-{sid} (C\d+) DETECTED (.*)", det.stdout)
if demo_ok_without and demo_fails_with and suite_ok:
    out = f"/verif/seeded/{sid}"
    os.makedirs(out, exist_ok=True)
    for f in ("patch.diff", "demo.rs", "notes.md"):
        shutil.copy(f"{src}/{f}", f"{out}/{f}")
    if os.path.exists(f"{src}/demo.sh"):
        shutil.copy(f"{src}/demo.sh", f"{out}/demo.sh")
    if os.path.isdir(f"{src}/fixture"):
        shutil.rmtree(f"{out}/fixture", ignore_errors=True)
        shutil.copytree(f"{src}/fixture", f"{out}/fixture")
    notes = open(f"{src}/notes.md").read()
    meta = {"id": sid, "breaks_property": prop, "source": "independent sub-agent given only the property text and a scratch worktree",
            "needs_to_manifest": notes.split("\n\n")[0][:1500],
            "confirmed": {"existing_suite_passes_with_patch": suite_ok, "tests_passed": passed, "demo_fails_with_patch": demo_fails_with, "demo_passes_without_patch": demo_ok_without,
                          "how": "tools/import_seed.py: scratch copy of /repo HEAD, cargo test --workspace --no-fail-fast --offline, cargo test --test seed_demo"},
            "checks_run": checks, "detected_by": [{"check": c, "signature": s[:200]} for c, s in detected]}
    json.dump(meta, open(f"{out}/meta.json", "w"), indent=1)
    print(sid, "KEPT; detected by", [c for c, _ in detected] or "NONE")
else:
    print(sid, "NOT KEPT (confirmation failed)")
    print(r0.stdout[-600:]); print(r1.stdout[-600:]); print(r2.stdout[-600:])
