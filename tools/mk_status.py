#!/usr/bin/env python3
"""Print a markdown table with the figures of the committed evidence files (for DESIGN §9.6)."""
import json, glob
rows = []
for f in sorted(glob.glob('/verif/evidence/C*.json')):
    e = json.load(open(f)); c = e['coverage']
    faults = ', '.join(f"{k}:{v}" for k, v in sorted(c.get('faults_fired', {}).items())) or '-'
    rows.append(f"| {e['property_id']} | {e['tier']} | {c['evaluations']} | {c['episodes_executed']} | {c['distinct_nontrivial']} | {c['api_calls']} | {c.get('distinct_states',0)} | {faults} | {c.get('inconclusive_runs',0)} | {e['violations']} | {e['wall_s']:.0f} |")
print("| id | tier | evaluations | episodes | distinct non-trivial | API calls | distinct states | faults fired | inconclusive | violations | wall s |")
print("|---|---|---|---|---|---|---|---|---|---|---|")
print("\n".join(rows))
